#!/usr/bin/env python3-vt
"""E2: symbolic executor proving the TinyJAMBU assembly permutation backends
(/repo/src/backend/tinyjambu-*-asm-*.S) equal to the specification's keyed NLFSR.

One ISA semantics per family, written once over "int or z3 term" values: with int
inputs it is a concrete interpreter (--selftest, counterexample replay, random
pre-filter shadows), with z3 inputs it is the symbolic executor.  See README.md."""
import argparse, json, os, random, re, subprocess, time
import z3

HERE = os.path.dirname(os.path.abspath(__file__))
import os as _os
BACKEND = _os.path.join(_os.environ.get('VERIF_REPO', '/repo'), 'src/backend')
M32 = 0xffffffff


class Fail(Exception):
    """A definite violation after which execution cannot continue."""
    def __init__(self, fid, msg):
        super().__init__(msg)
        self.fid, self.msg = fid, msg


class Unmodelled(Exception):
    """Something the tool has no semantics for: result INCONCLUSIVE, never PASS."""


# ----------------------------------------------------------------- values
def isc(v): return isinstance(v, int)
def mask(w): return (1 << w) - 1
def bv(v, w): return z3.BitVecVal(v, w) if isc(v) else v


def norm(v, w):
    if isc(v):
        return v & mask(w)
    v = z3.simplify(v)
    return v.as_long() if z3.is_bv_value(v) else v


def shl(a, n, w): return 0 if n >= w else norm(a << n, w)
def lshr(a, n, w): return 0 if n >= w else (a >> n if isc(a) else norm(z3.LShR(a, n), w))


def sext(v, fr, to):
    if fr == to:
        return v
    if isc(v):
        return v | (mask(to) ^ mask(fr)) if (v >> (fr - 1)) & 1 else v
    return norm(z3.SignExt(to - fr, v), to)


def zext(v, fr, to): return v if isc(v) or fr == to else norm(z3.ZeroExt(to - fr, v), to)
def asr(a, n, w): return lshr(sext(a, w, 2 * w), min(n, w), 2 * w) & mask(w) if isc(a) else norm(a >> min(n, w - 1), w)
def ext(v, hi, lo): return (v >> lo) & mask(hi - lo + 1) if isc(v) else norm(z3.Extract(hi, lo, v), hi - lo + 1)
def signed(v, w): return v - (1 << w) if (v >> (w - 1)) & 1 else v


def cat(parts):
    """parts = [(value, width)], most significant first."""
    if len(parts) == 1:
        return parts[0][0]
    if all(isc(p) for p, _ in parts):
        r = 0
        for p, w in parts:
            r = (r << w) | p
        return r
    return norm(z3.Concat(*[bv(p, w) for p, w in parts]), sum(w for _, w in parts))


def same(a, b):
    if isc(a) or isc(b):
        return isc(a) and isc(b) and a == b
    if a.eq(b):
        return True
    return Q.neq([(a, b)], 10)[0] == 'unsat'


class Q:
    """Solver bookkeeping: every query is 'exists input: some pair differs'."""
    n, t = 0, 0.0

    @classmethod
    def neq(cls, pairs, timeout_s, defs=()):
        s = z3.SolverFor('QF_BV')
        s.set('timeout', int(timeout_s * 1000))
        s.add(*defs)
        s.add(z3.Or(*[a != b for a, b in pairs]))
        t0 = time.time()
        r = s.check()
        cls.n, cls.t = cls.n + 1, cls.t + time.time() - t0
        return str(r), (s.model() if r == z3.sat else None)


# ---------------------------------------------------------- specification
def b32(w0, w1, w2, w3, k):
    """Word-sliced 32 steps (ints or z3 terms); k is the pre-inverted key word."""
    f = lambda lo, hi, n: lshr(lo, n, 32) | shl(hi, 32 - n, 32)
    return norm(w0 ^ f(w1, w2, 15) ^ (f(w2, w3, 6) & f(w2, w3, 21)) ^ f(w2, w3, 27) ^ k, 32)


def chain_words(s, kinv, r):
    """[v_0 .. v_{4r-1}]: the word-sliced spec chain."""
    c = list(s)
    for j in range(4 * r):
        c.append(b32(c[j], c[j + 1], c[j + 2], c[j + 3], kinv[j % len(kinv)]))
    return c[4:]


def ref_words(s, kinv, r): return (list(s) + chain_words(s, kinv, r))[4 * r:]


def ref_bitserial(s, kinv, r):
    """The specification, bit by bit, on Python ints."""
    kbits = 32 * len(kinv)
    st = sum(w << (32 * i) for i, w in enumerate(s))
    key = sum(((~w) & M32) << (32 * i) for i, w in enumerate(kinv))
    for i in range(128 * r):
        fb = (st ^ (st >> 47) ^ ~((st >> 70) & (st >> 85)) ^ (st >> 91) ^ (key >> (i % kbits))) & 1
        st = (st >> 1) | (fb << 127)
    return [(st >> (32 * i)) & M32 for i in range(4)]


def lemma_a(timeout):
    """32 bit-serial steps with true key word ~kinv == word-sliced block, for all inputs."""
    w = [z3.BitVec('w%d' % i, 32) for i in range(4)]
    kinv = z3.BitVec('kinv', 32)
    bits = [z3.Extract(i % 32, i % 32, w[i // 32]) for i in range(128)]
    for t in range(32):
        fb = bits[0] ^ bits[47] ^ ~(bits[70] & bits[85]) ^ bits[91] ^ z3.Extract(t, t, ~kinv)
        bits = bits[1:] + [fb]
    got = [z3.Concat(*reversed(bits[32 * i:32 * i + 32])) for i in range(4)]
    want = [w[1], w[2], w[3], b32(w[0], w[1], w[2], w[3], kinv)]
    return Q.neq(list(zip(got, want)), timeout)[0]


# ------------------------------------------------------------------ parser
class Program:
    def __init__(self):
        self.ins, self.labels, self.numl, self.globals = [], {}, {}, set()


def preprocess(path, defs):
    cmd = ['gcc', '-E', '-undef', '-nostdinc', '-x', 'assembler-with-cpp', '-I', BACKEND,
           '-I', os.path.join(HERE, 'stub')] + defs + [path]
    p = subprocess.run(cmd, capture_output=True, text=True)
    if p.returncode:
        raise Unmodelled('preprocessor failed: ' + p.stderr.strip()[:300])
    return p.stdout


def split_ops(s):
    out, cur, d = [], '', 0
    for ch in s:
        d += (ch in '[{(') - (ch in ']})')
        if ch == ',' and d == 0:
            out.append(cur.strip())
            cur = ''
        else:
            cur += ch
    return out + [cur.strip()] if cur.strip() else out


def parse(text, comment):
    P, ln = Program(), 0
    for line in text.splitlines():
        m = re.match(r'#\s*(\d+)\s+"', line)
        if m:
            ln = int(m.group(1)) - 1
            continue
        ln += 1
        line = re.split('//|' + re.escape(comment), line)[0].strip()
        while True:
            m = re.match(r'([.\w$]+):\s*', line)
            if not m:
                break
            if m.group(1).isdigit():
                P.numl.setdefault(m.group(1), []).append(len(P.ins))
            else:
                P.labels[m.group(1)] = len(P.ins)
            line = line[m.end():]
        if not line or re.match(r'[.\w$]+\s*=', line):
            continue
        mn, rest = (line.split(None, 1) + [''])[:2]
        if mn.startswith('.'):
            if mn in ('.global', '.globl'):
                P.globals.add(rest.strip())
            continue
        P.ins.append((mn.lower(), split_ops(rest), ln))
    return P


def toint(t):
    try:
        return int(t.strip().lstrip('#'), 0)
    except ValueError:
        raise Unmodelled('cannot evaluate immediate %r' % t)


# ------------------------------------------------------------------ memory
class Mem:
    """Byte-addressed memory of little-endian cells: addr -> (value, nbytes)."""
    def __init__(self): self.c = {}

    def store(self, a, v, n):
        for b in range(a - 7, a + n):
            if b in self.c and (b, self.c[b][1]) != (a, n) and b + self.c[b][1] > a:
                cv, cn = self.c.pop(b)
                for i in range(cn):
                    self.c[b + i] = (ext(cv, 8 * i + 7, 8 * i), 1)
        for i in range(n):
            self.c.pop(a + i, None)
        self.c[a] = (v, n)

    def load(self, a, n):
        if a in self.c and self.c[a][1] == n:
            return self.c[a][0]
        parts = []
        for x in range(a + n - 1, a - 1, -1):
            for b in range(x, x - 8, -1):
                if b in self.c and b + self.c[b][1] > x:
                    parts.append((ext(self.c[b][0], 8 * (x - b) + 7, 8 * (x - b)), 8))
                    break
            else:
                return None
        return cat(parts)


# ------------------------------------------------------------ machine base
class Machine:
    W, PIECES, BASE, SP0, RETPOP = 32, 1, 0x20001000, 0x20008000, 0

    def __init__(self, prog, isa, kb, s, k, r, rng):
        self.prog, self.isa, self.kw, self.rounds, self.rng = prog, isa, kb // 32, r, rng
        self.symbolic = not isc(s[0])
        self.mem, self.k = Mem(), list(k)
        for i, w in enumerate(list(s) + list(k)):
            self.mem.store(self.BASE + 4 * i, w, 4)
        self.fails, self.nprops, self.steps, self.done, self.written = [], 1, 0, False, []
        name = 'tinyjambu_permutation_%d' % kb
        if name not in prog.labels:
            raise Unmodelled('entry label %s not found (backend not selected by the macros?)' % name)
        if name not in prog.globals:
            self.fail('not-global', name + ' is not declared .global')
        self.pc, self.cur = prog.labels[name], ''
        self.reset()

    def junk(self, name, w=None):
        w = w or self.W
        return z3.BitVec('in_' + name, w) if self.symbolic else self.rng.getrandbits(w)

    def fail(self, fid, msg):
        if [fid, msg] not in self.fails and len(self.fails) < 20:
            self.fails.append([fid, msg])

    def concrete(self, v, what):
        self.nprops += 1
        if v is None:
            raise Fail('undef-flag', '%s: %s used before being defined' % (self.cur, what))
        if not isc(v):
            raise Fail('secret-branch', '%s: %s depends on secret data' % (self.cur, what))
        return v

    def in_frame(self, a, n): return self.getsp() <= a and a + n <= self.SP0

    def access(self, a, n, limit, what):
        self.nprops += 1
        if not isc(a):
            raise Fail('secret-address', '%s: %s address depends on secret data' % (self.cur, what))
        if not (self.BASE <= a and a + n <= self.BASE + limit) and not self.in_frame(a, n):
            self.fail(what + '-outside', '%s: %s of %d bytes at 0x%x is outside %s and the own stack frame'
                      % (self.cur, what, n, a, 'state words s[0..3]' if what == 'store' else 'the state struct'))

    def load(self, a, n):
        self.access(a, n, 16 + 4 * self.kw, 'load')
        v = self.mem.load(a, n)
        if v is None:
            raise Fail('load-uninit', '%s: load from uninitialised memory at 0x%x' % (self.cur, a))
        return v

    def store(self, a, v, n):
        self.access(a, n, 16, 'store')
        self.mem.store(a, v, n)

    def target(self, lab):
        m = re.fullmatch(r'(\d+)([bf])', lab)
        if m:
            c = self.prog.numl.get(m.group(1), [])
            c = [i for i in c if i <= self.pc] if m.group(2) == 'b' else [i for i in c if i > self.pc][::-1]
            if c:
                return c[-1]
        elif lab in self.prog.labels:
            return self.prog.labels[lab]
        raise Unmodelled('%s: branch to unknown label %s' % (self.cur, lab))

    def step(self):
        if not 0 <= self.pc < len(self.prog.ins):
            raise Fail('no-return', 'execution ran off the end of the code')
        mn, ops, ln = self.prog.ins[self.pc]
        self.cur = '%s %s (line %d)' % (mn, ', '.join(ops), ln)
        self.written, self.npc = [], self.pc + 1
        self.exec(mn, ops)
        self.pc, self.steps = self.npc, self.steps + 1

    def run(self, budget):
        while not self.done:
            if self.steps >= budget:
                raise Fail('no-return', 'no return within %d instructions' % budget)
            self.step()
        return self

    def ret_to(self, v):
        self.nprops += 2
        if self.getsp() != self.SP0 + self.RETPOP:
            self.fail('sp-mismatch', 'stack pointer on return is %+d bytes off its entry value'
                      % (self.getsp() - self.SP0 - self.RETPOP))
        if v is None or not same(v, self.link):
            raise Fail('bad-return', '%s: does not return to the entry link' % self.cur)
        self.done = True
        for name, cur, ent in self.saved():
            self.nprops += 1
            if not same(cur, ent):
                self.fail('callee-saved', 'register %s is not preserved' % name)
        for j, kw in enumerate(self.k):
            self.nprops += 1
            v = self.mem.load(self.BASE + 16 + 4 * j, 4)
            if v is None or not same(v, kw):
                self.fail('key-changed', 'key word k[%d] was modified' % j)

    def saved(self): return [(self.rname(i), self.getloc(i), self.entry[i]) for i in self.SAVED]
    def rname(self, i): return 'r%d' % i
    def getloc(self, i): return self.r[i]
    def setloc(self, i, v): self.r[i] = v
    def emb(self, x, p): return x            # how piece p of a state word sits in a register
    def out_words(self): return [self.mem.load(self.BASE + 4 * i, 4) for i in range(4)]


# --------------------------------------------------------------------- ARM
SECRET = z3.BitVec('secret_flag', 1)          # stands for any flag value that depends on secret data
CC = 'eq|ne|cs|hs|cc|lo|mi|pl|vs|vc|hi|ls|ge|lt|gt|le|al'
ARM_DP = re.compile(r'(and|eor|orr|bic|add|sub|rsb|mov|mvn|lsl|lsr|asr|ror)(s?)(%s)?' % CC)
ARM_CMP = re.compile(r'(cmp|cmn|tst|teq)(%s)?' % CC)
ARM_B = re.compile(r'b(%s)?' % CC)
ARM_MEM = re.compile(r'(ldr|str)(b|h)?(%s)?' % CC)
ARM_SH = re.compile(r'(lsl|lsr|asr|ror)\s+(#?-?\w+)$')
CCF = {'eq': ('z', lambda f: f['z']), 'ne': ('z', lambda f: not f['z']),
       'cs': ('c', lambda f: f['c']), 'hs': ('c', lambda f: f['c']),
       'cc': ('c', lambda f: not f['c']), 'lo': ('c', lambda f: not f['c']),
       'mi': ('n', lambda f: f['n']), 'pl': ('n', lambda f: not f['n']),
       'vs': ('v', lambda f: f['v']), 'vc': ('v', lambda f: not f['v']),
       'hi': ('cz', lambda f: f['c'] and not f['z']), 'ls': ('cz', lambda f: not f['c'] or f['z']),
       'ge': ('nv', lambda f: f['n'] == f['v']), 'lt': ('nv', lambda f: f['n'] != f['v']),
       'gt': ('nzv', lambda f: not f['z'] and f['n'] == f['v']),
       'le': ('nzv', lambda f: f['z'] or f['n'] != f['v'])}


class Arm(Machine):
    RN = dict({'r%d' % i: i for i in range(16)}, sb=9, sl=10, fp=11, ip=12, sp=13, lr=14, pc=15)
    SAVED = list(range(4, 12))

    def reset(self):
        self.r = [self.junk('r%d' % i) for i in range(16)]
        self.r[0], self.r[1], self.r[13], self.r[15] = self.BASE, self.rounds & M32, self.SP0, None
        self.link, self.entry = self.r[14], list(self.r)
        self.nz = self.cf = self.vf = None

    def getsp(self): return self.r[13]

    def reg(self, t):
        if t.lower() not in self.RN:
            raise Unmodelled('%s: unknown register %s' % (self.cur, t))
        return self.RN[t.lower()]

    def rv(self, t):
        i = self.reg(t)
        if i == 15:
            raise Unmodelled(self.cur + ': pc-relative value')
        return self.r[i]

    def wr(self, i, v):
        if i == 15:
            return self.ret_to(v)
        if i == 13 and not isc(v):
            raise Fail('secret-address', self.cur + ': stack pointer becomes data dependent')
        self.r[i] = v
        self.written.append(i)

    def cond(self, cc):
        if cc in ('', 'al'):
            return True
        f = {}
        for ch in CCF[cc][0]:
            if ch in 'nz':
                nz = self.concrete(self.nz, 'branch condition (N/Z flags)')
                f['z'], f['n'] = int(nz == 0), nz >> 31
            else:
                f[ch] = self.concrete(self.cf if ch == 'c' else self.vf, 'branch condition (%s flag)' % ch.upper())
        return bool(CCF[cc][1](f))

    def shift(self, kind, v, n):
        """-> (result, carry-out or None when n == 0)."""
        if not isc(n):
            raise Fail('secret-shift', self.cur + ': shift amount depends on secret data')
        n &= 255
        if n == 0:
            return v, None
        bit = lambda i: ext(v, i, i) if 0 <= i < 32 else 0
        if kind == 'lsl':
            return shl(v, n, 32), bit(32 - n)
        if kind == 'lsr':
            return lshr(v, n, 32), bit(n - 1)
        if kind == 'asr':
            return asr(v, n, 32), bit(min(n, 32) - 1)
        n = n % 32 or 32
        return norm(lshr(v, n, 32) | shl(v, 32 - n, 32), 32), bit(n - 1)

    def op2(self, toks):
        v = toint(toks[0]) & M32 if toks[0].startswith('#') else self.rv(toks[0])
        if len(toks) == 1:
            return v, None
        m = ARM_SH.match(toks[1])
        if not m or len(toks) > 2:
            raise Unmodelled(self.cur + ': operand form')
        amt = toint(m.group(2)) if m.group(2).startswith('#') else self.rv(m.group(2))
        return self.shift(m.group(1), v, amt)

    def dp(self, op, s, cc, ops):
        if not self.cond(cc):
            return
        carry, rd, a = None, None, None
        if op in ('lsl', 'lsr', 'asr', 'ror'):
            rd = ops[0]
            amt = toint(ops[-1]) if ops[-1].startswith('#') else self.rv(ops[-1])
            res, carry = self.shift(op, self.rv(ops[0] if len(ops) == 2 else ops[1]), amt)
        else:
            if op in ('cmp', 'cmn', 'tst', 'teq'):
                a, rest = self.rv(ops[0]), ops[1:]
            elif op in ('mov', 'mvn'):
                rd, rest = ops[0], ops[1:]
            else:
                rd, rest = ops[0], ops[1:]
                if len(rest) == 1 or (len(rest) == 2 and ARM_SH.match(rest[1])):
                    a = self.rv(rd)
                else:
                    a, rest = self.rv(rest[0]), rest[1:]
            b, carry = self.op2(rest)
            if op == 'rsb':
                a, b = b, a
            if op in ('add', 'cmn'):
                res = a + b
            elif op in ('sub', 'cmp', 'rsb'):
                res = a - b
            else:
                res = {'and': lambda: a & b, 'tst': lambda: a & b, 'eor': lambda: a ^ b, 'teq': lambda: a ^ b,
                       'orr': lambda: a | b, 'bic': lambda: a & ~b, 'mov': lambda: b, 'mvn': lambda: ~b}[op]()
            res = norm(res, 32)
            if s and op in ('add', 'cmn', 'sub', 'cmp', 'rsb'):
                if isc(a) and isc(b):
                    if op in ('add', 'cmn'):
                        self.cf, self.vf = (a + b) >> 32, ((~(a ^ b) & (a ^ res)) >> 31) & 1
                    else:
                        self.cf, self.vf = int(a >= b), (((a ^ b) & (a ^ res)) >> 31) & 1
                else:
                    self.cf = self.vf = SECRET
                carry = None
        if s:
            self.nz = res
            if carry is not None:
                self.cf = carry
        if rd is not None:
            self.wr(self.reg(rd), res)

    def reglist(self, ops):
        out = []
        for t in split_ops(' '.join(ops).strip('{} ')):
            a, _, b = t.partition('-')
            out += range(self.reg(a.strip()), self.reg((b or a).strip()) + 1)
        return sorted(set(out))

    def thumb1(self, mn, ops):
        """ARMv6-M (Thumb-1) encodability of the instruction forms used."""
        hi = [self.RN[t] for t in re.findall(r'\b(?:r\d+|sp|lr|pc|ip|fp|sl|sb)\b', ' '.join(ops).lower())
              if self.RN[t] > 7]
        m, ok = ARM_DP.fullmatch(mn), True
        if m:
            op, s, cc = m.groups()
            imm = any(o.startswith('#') for o in ops)
            if cc or any(ARM_SH.match(o) for o in ops[1:]):
                ok = False
            elif op in ('mov', 'add') and not s:
                ok = not imm or (op == 'add' and 13 in hi and set(hi) <= {13})
            elif op == 'sub' and not s:
                ok = imm and hi in ([13, 13], [13])
            else:
                ok = bool(s) and not hi
        elif ARM_CMP.fullmatch(mn):
            ok = not hi or (mn == 'cmp' and not ops[-1].startswith('#'))
        elif ARM_MEM.fullmatch(mn):
            ok = set(hi) <= {13, 15} and self.RN.get(ops[0].lower(), 0) < 8     # base may be sp (pc for ldr)
        elif mn in ('push', 'pop'):
            ok = set(hi) <= ({14} if mn == 'push' else {15})
        elif mn in ('cbz', 'cbnz') or mn.endswith('.w'):
            ok = False
        if not ok:
            self.fail('isa-subset', self.cur + ': not encodable in ARMv6-M Thumb-1')

    def exec(self, mn, ops):
        if self.isa == 'armv6m':
            self.nprops += 1
            self.thumb1(mn, ops)
        mn = re.sub(r'\.[nw]$', '', mn)
        m = ARM_DP.fullmatch(mn)
        if m:
            return self.dp(m.group(1), m.group(2) == 's', m.group(3) or '', ops)
        m = ARM_CMP.fullmatch(mn)
        if m:
            return self.dp(m.group(1), True, m.group(2) or '', ops)
        m = ARM_B.fullmatch(mn)
        if m:
            if self.cond(m.group(1) or ''):
                self.npc = self.target(ops[0])
        elif mn == 'bx':
            self.ret_to(self.rv(ops[0]))
        elif mn in ('cbz', 'cbnz'):
            if (self.concrete(self.rv(ops[0]), 'branch condition') == 0) == (mn == 'cbz'):
                self.npc = self.target(ops[1])
        elif mn == 'push':
            regs = self.reglist(ops)
            self.r[13] -= 4 * len(regs)
            for i, x in enumerate(regs):
                self.store(self.r[13] + 4 * i, self.r[x], 4)
        elif mn == 'pop':
            regs = self.reglist(ops)
            vals = [self.load(self.r[13] + 4 * i, 4) for i in range(len(regs))]
            self.r[13] += 4 * len(regs)
            for x, v in zip(regs, vals):
                self.wr(x, v)
        elif ARM_MEM.fullmatch(mn):
            kind, sz, cc = ARM_MEM.fullmatch(mn).groups()
            if not self.cond(cc or ''):
                return
            n = {None: 4, 'b': 1, 'h': 2}[sz]
            m = re.fullmatch(r'\[\s*(\w+)\s*(?:,\s*(#?-?\w+)\s*)?\](!?)', ops[1]) if len(ops) > 1 else None
            if not m or len(ops) > 3:
                raise Unmodelled(self.cur + ': addressing mode')
            base, off = self.reg(m.group(1)), 0
            for t in [m.group(2)] + ops[2:]:
                if t:
                    off = toint(t) if t.startswith('#') else self.rv(t)
            post = len(ops) == 3
            a = self.r[base] if post else norm(self.r[base] + off, 32)
            if kind == 'ldr':
                self.wr(self.reg(ops[0]), zext(self.load(a, n), 8 * n, 32))
            else:
                self.store(a, ext(self.rv(ops[0]), 8 * n - 1, 0), n)
            if post or m.group(3):
                self.wr(base, norm(self.r[base] + off, 32) if post else a)
        elif mn == 'nop' or re.fullmatch(r'it[te]{0,3}', mn):
            pass
        else:
            raise Unmodelled(self.cur + ': instruction not modelled')


# --------------------------------------------------------------------- AVR
class Avr(Machine):
    W, PIECES, BASE, SP0, RETPOP = 8, 4, 0x0300, 0x08fd, 2
    SAVED = list(range(2, 18)) + [28, 29]

    def reset(self):
        n = self.rounds
        self.r = [self.junk('r%d' % i) for i in range(32)]
        self.r[1] = 0
        self.r[24], self.r[25], self.r[22], self.r[23] = self.BASE & 255, self.BASE >> 8, n & 255, (n >> 8) & 255
        self.sp, self.entry, self.C, self.zn = self.SP0, list(self.r), None, None
        self.link = self.junk('retaddr', 16)
        self.mem.store(self.SP0 + 1, self.link, 2)

    def getsp(self): return self.sp
    def in_frame(self, a, n): return self.sp < a and a + n - 1 <= self.SP0

    def saved(self):
        s = Machine.saved(self)
        return s + ([('r1 (zero register)', self.r[1], 0)] if self.r1_touched else [])

    r1_touched = False

    def reg(self, t, lo=0, even=False):
        m = re.fullmatch(r'r(\d+)', t.lower())
        if not m or int(m.group(1)) > 31:
            raise Unmodelled('%s: unknown register %s' % (self.cur, t))
        i = int(m.group(1))
        if i < lo or (even and i & 1):
            self.fail('isa-subset', '%s: register r%d not allowed for this instruction' % (self.cur, i))
        return i

    def wr(self, i, v):
        self.r[i] = v
        self.written.append(i)
        if i == 1:
            self.r1_touched = True

    def ptr(self, lo): return self.concrete_addr(cat([(self.r[lo + 1], 8), (self.r[lo], 8)]))

    def concrete_addr(self, a):
        if not isc(a):
            raise Fail('secret-address', self.cur + ': pointer depends on secret data')
        return a

    def ea(self, t):
        m = re.fullmatch(r'(-?)([XYZ])(\+?)(\d*)', t.replace(' ', ''))
        if not m:
            raise Unmodelled(self.cur + ': addressing mode')
        lo = {'X': 26, 'Y': 28, 'Z': 30}[m.group(2)]
        p = self.ptr(lo)
        if m.group(1) or (m.group(3) and not m.group(4)):
            q = (p + (-1 if m.group(1) else 1)) & 0xffff
            self.wr(lo, q & 255)
            self.wr(lo + 1, q >> 8)
            return q if m.group(1) else p
        return p + int(m.group(4) or 0)

    def addc(self, a, b, c, sub):
        a, b, c = zext(a, 8, 9), zext(b, 8, 9), zext(c, 1, 9)
        full = norm(a - b - c if sub else a + b + c, 9)
        return ext(full, 7, 0), ext(full, 8, 8)

    def carry(self):
        if self.C is None:
            raise Fail('undef-flag', self.cur + ': carry used before being defined')
        return self.C

    def br(self, mn, lab):
        zn = lambda: self.concrete(self.zn, 'branch condition (Z/N flags)')
        c = lambda: self.concrete(self.C, 'branch condition (carry)')
        t = {'breq': lambda: zn() == 0, 'brne': lambda: zn() != 0, 'brcs': lambda: c() == 1, 'brlo': lambda: c() == 1,
             'brcc': lambda: c() == 0, 'brsh': lambda: c() == 0, 'brmi': lambda: zn() >> 7 == 1,
             'brpl': lambda: zn() >> 7 == 0}[mn]()
        if t:
            self.npc = self.target(lab)

    def exec(self, mn, ops):
        R, r = self.reg, self.r
        if mn == 'mov':
            self.wr(R(ops[0]), r[R(ops[1])])
        elif mn == 'movw':
            d, s = [R(o.split(':')[-1], even=True) for o in ops]
            lo, hi = r[s], r[s + 1]
            self.wr(d, lo)
            self.wr(d + 1, hi)
        elif mn == 'ldi':
            self.wr(R(ops[0], 16), toint(ops[1]) & 255)
        elif mn in ('ld', 'ldd'):
            self.wr(R(ops[0]), self.load(self.ea(ops[1]), 1))
        elif mn in ('st', 'std'):
            self.store(self.ea(ops[0]), r[R(ops[1])], 1)
        elif mn == 'push':
            a, self.sp = self.sp, self.sp - 1
            self.store(a, r[R(ops[0])], 1)
        elif mn == 'pop':
            v = self.load(self.sp + 1, 1)
            self.sp += 1
            self.wr(R(ops[0]), v)
        elif mn in ('eor', 'and', 'or', 'andi', 'ori', 'clr', 'tst'):
            d = R(ops[0], 16 if mn in ('andi', 'ori') else 0)
            b = r[d] if mn in ('clr', 'tst') else toint(ops[1]) & 255 if mn in ('andi', 'ori') else r[R(ops[1])]
            v = norm(r[d] ^ b if mn in ('eor', 'clr') else r[d] | b if mn in ('or', 'ori') else r[d] & b, 8)
            self.zn = v
            if mn != 'tst':
                self.wr(d, v)
        elif mn in ('add', 'adc', 'sub', 'subi', 'cp', 'cpi'):
            d = R(ops[0], 16 if mn in ('subi', 'cpi') else 0)
            b = toint(ops[1]) & 255 if mn in ('subi', 'cpi') else r[R(ops[1])]
            v, self.C = self.addc(r[d], b, self.carry() if mn == 'adc' else 0, mn[0] != 'a')
            self.zn = v
            if mn[0] != 'c':
                self.wr(d, v)
        elif mn in ('lsl', 'rol', 'lsr', 'ror', 'asr'):
            d = R(ops[0])
            v = r[d]
            if mn in ('lsl', 'rol'):
                res, c = cat([(ext(v, 6, 0), 7), (self.carry() if mn == 'rol' else 0, 1)]), ext(v, 7, 7)
            else:
                top = self.carry() if mn == 'ror' else ext(v, 7, 7) if mn == 'asr' else 0
                res, c = cat([(top, 1), (ext(v, 7, 1), 7)]), ext(v, 0, 0)
            self.C, self.zn = c, res
            self.wr(d, res)
        elif mn in ('com', 'neg', 'inc', 'dec', 'swap'):
            d = R(ops[0])
            v = r[d]
            if mn == 'swap':
                return self.wr(d, cat([(ext(v, 3, 0), 4), (ext(v, 7, 4), 4)]))
            res = norm({'com': lambda: ~v, 'neg': lambda: -v, 'inc': lambda: v + 1, 'dec': lambda: v - 1}[mn](), 8)
            if mn == 'com':
                self.C = 1
            elif mn == 'neg':
                self.C = int(res != 0) if isc(res) else norm(z3.If(res == 0, z3.BitVecVal(0, 1), z3.BitVecVal(1, 1)), 1)
            self.zn = res
            self.wr(d, res)
        elif mn.startswith('br') and len(ops) == 1:
            if mn not in ('breq', 'brne', 'brcs', 'brlo', 'brcc', 'brsh', 'brmi', 'brpl'):
                raise Unmodelled(self.cur + ': instruction not modelled')
            self.br(mn, ops[0])
        elif mn in ('rjmp', 'jmp'):
            self.npc = self.target(ops[0])
        elif mn == 'ret':
            ra = self.mem.load(self.sp + 1, 2)       # ret pops the 16-bit return address
            self.sp += 2
            self.ret_to(ra)
        elif mn == 'nop':
            pass
        else:
            raise Unmodelled(self.cur + ': instruction not modelled')

    def emb(self, x, p): return ext(x, 8 * p + 7, 8 * p)


# ------------------------------------------------------------------ RISC-V
RV_NAMES = ('zero ra sp gp tp t0 t1 t2 s0 s1 a0 a1 a2 a3 a4 a5 a6 a7 '
            's2 s3 s4 s5 s6 s7 s8 s9 s10 s11 t3 t4 t5 t6').split()
RV_ALU = {'add': lambda a, b: a + b, 'sub': lambda a, b: a - b, 'xor': lambda a, b: a ^ b,
          'or': lambda a, b: a | b, 'and': lambda a, b: a & b}
RV_BR = {'beq': lambda a, b, w: a == b, 'bne': lambda a, b, w: a != b,
         'blt': lambda a, b, w: signed(a, w) < signed(b, w), 'bge': lambda a, b, w: signed(a, w) >= signed(b, w),
         'bltu': lambda a, b, w: a < b, 'bgeu': lambda a, b, w: a >= b}


class RiscV(Machine):
    RN = dict({n: i for i, n in enumerate(RV_NAMES)}, fp=8, **{'x%d' % i: i for i in range(32)})

    def reset(self):
        self.W = 64 if self.isa == 'riscv64i' else 32
        self.NREG = 16 if self.isa == 'riscv32e' else 32
        self.SAVED = [i for i in [3, 4, 8, 9] + list(range(18, 28)) if i < self.NREG]
        self.r = [self.junk('x%d' % i) for i in range(32)]
        self.r[0], self.r[2], self.r[10], self.r[11] = 0, self.SP0, self.BASE, sext(self.rounds & M32, 32, self.W)
        self.link, self.entry = self.r[1], list(self.r)

    def getsp(self): return self.r[2]
    def rname(self, i): return RV_NAMES[i]

    def reg(self, t):
        i = self.RN.get(t.lower())
        if i is None:
            raise Unmodelled('%s: unknown register %s' % (self.cur, t))
        if i >= self.NREG:
            raise Fail('isa-reg', '%s: register %s (x%d) does not exist on RV32E' % (self.cur, t, i))
        return i

    def rv(self, t): return self.r[self.reg(t)]

    def wr(self, t, v):
        i = self.reg(t)
        if i == 2 and not isc(v):
            raise Fail('secret-address', self.cur + ': stack pointer becomes data dependent')
        if i:
            self.r[i] = v
            self.written.append(i)

    def memop(self, t):
        m = re.fullmatch(r'(-?\w*)\s*\(\s*(\w+)\s*\)', t)
        if not m:
            raise Unmodelled(self.cur + ': addressing mode')
        return norm(self.rv(m.group(2)) + (toint(m.group(1)) if m.group(1) else 0), self.W)

    def exec(self, mn, ops):
        W, rv = self.W, self.rv
        m = re.fullmatch(r'(l|s)(b|h|w|d)(u?)', mn)
        if m and len(ops) == 2 and '(' in ops[1]:
            n = {'b': 1, 'h': 2, 'w': 4, 'd': 8}[m.group(2)]
            if 8 * n > W or (m.group(3) and (m.group(1) == 's' or 8 * n == W)):
                raise Fail('isa-subset', '%s: not available on RV%d' % (self.cur, W))
            a = self.memop(ops[1])
            if m.group(1) == 'l':
                v = self.load(a, n)
                self.wr(ops[0], zext(v, 8 * n, W) if m.group(3) else sext(v, 8 * n, W))
            else:
                self.store(a, ext(rv(ops[0]), 8 * n - 1, 0), n)
            return
        m = re.fullmatch(r'(add|sub|xor|or|and|sll|srl|sra)(i?)(w?)', mn)
        if m and len(ops) == 3 and not (m.group(1) == 'sub' and m.group(2)):
            op, imm, w32 = m.groups()
            if w32 and (W != 64 or op in ('xor', 'or', 'and')):
                raise Fail('isa-subset', '%s: not available on RV%d' % (self.cur, W))
            n = 32 if w32 else W
            a = ext(rv(ops[1]), n - 1, 0)
            b = toint(ops[2]) if imm else ext(rv(ops[2]), n - 1, 0)
            if op in RV_ALU:
                if imm and not -2048 <= b < 2048:
                    raise Fail('isa-subset', self.cur + ': immediate out of range')
                v = norm(RV_ALU[op](a, b), n)
            else:
                if not isc(b):
                    raise Fail('secret-shift', self.cur + ': shift amount depends on secret data')
                if imm and not 0 <= b < n:
                    raise Fail('isa-subset', self.cur + ': shift amount out of range')
                v = {'sll': shl, 'srl': lshr, 'sra': asr}[op](a, b & (n - 1), n)
            return self.wr(ops[0], sext(v, n, W))
        if mn in RV_BR or mn in ('beqz', 'bnez', 'bltz', 'bgez', 'blez', 'bgtz'):
            if mn in RV_BR:
                a, b, f = rv(ops[0]), rv(ops[1]), RV_BR[mn]
            elif mn in ('blez', 'bgtz'):
                a, b, f = 0, rv(ops[0]), RV_BR['bge' if mn == 'blez' else 'blt']
            else:
                a, b, f = rv(ops[0]), 0, RV_BR[{'beqz': 'beq', 'bnez': 'bne', 'bltz': 'blt', 'bgez': 'bge'}[mn]]
            if isc(a) and isc(b):
                self.nprops += 1
            else:
                self.concrete(a if isc(b) else b, 'branch condition')
            if f(a, b, W):
                self.npc = self.target(ops[-1])
        elif mn == 'j':
            self.npc = self.target(ops[0])
        elif mn == 'li':
            self.wr(ops[0], toint(ops[1]) & mask(W))
        elif mn == 'lui':
            self.wr(ops[0], sext((toint(ops[1]) << 12) & M32, 32, W))
        elif mn in ('mv', 'not', 'neg'):
            a = rv(ops[1])
            self.wr(ops[0], a if mn == 'mv' else norm(~a if mn == 'not' else -a, W))
        elif mn == 'ret' or (mn == 'jr' and ops):
            self.ret_to(self.r[1] if mn == 'ret' else rv(ops[0]))
        elif mn == 'nop':
            pass
        else:
            raise Unmodelled(self.cur + ': instruction not modelled')

    def emb(self, x, p): return sext(x, 32, self.W)


# ------------------------------------------------------------------ Xtensa
class Xtensa(Machine):
    RN = dict({'a%d' % i: i for i in range(16)}, sp=1)
    SAVED = [12, 13, 14, 15]

    def reset(self):
        self.win = self.isa == 'xtensa-windowed'
        self.r = [self.junk('a%d' % i) for i in range(16)]
        self.r[1], self.r[2], self.r[3] = self.SP0, self.BASE, self.rounds & M32
        self.link, self.entry, self.sar, self.entered, self.frame = self.r[0], list(self.r), None, False, 0

    def getsp(self): return self.r[1] + self.frame
    def rname(self, i): return 'a%d' % i
    def saved(self): return [] if self.win else Machine.saved(self)

    def reg(self, t):
        if t.lower() not in self.RN:
            raise Unmodelled('%s: unknown register %s' % (self.cur, t))
        return self.RN[t.lower()]

    def rv(self, t): return self.r[self.reg(t)]

    def wr(self, t, v):
        i = self.reg(t)
        if i == 1 and not isc(v):
            raise Fail('secret-address', self.cur + ': stack pointer becomes data dependent')
        if self.win and self.entered and i < 2:
            self.fail('abi-window', '%s: a%d modified between entry and retw' % (self.cur, i))
        self.r[i] = v
        self.written.append(i)

    def in_frame(self, a, n): return self.r[1] <= a and a + n <= self.SP0

    def exec(self, mn, ops):
        rv = self.rv
        mn = re.sub(r'^_|\.n$', '', mn)
        if self.win and not self.entered and mn != 'entry':
            raise Fail('abi-window', self.cur + ': windowed function does not start with entry')
        if mn == 'entry':
            n = toint(ops[1])
            if not self.win or self.entered or self.reg(ops[0]) != 1 or n % 8 or not 16 <= n <= 32760:
                raise Fail('abi-window', self.cur + ': entry not valid here')
            self.r[1] -= n            # callee's a1; the caller's a1 reappears when retw rotates back
            self.entered, self.frame = True, n
        elif mn in ('retw', 'ret'):
            if (mn == 'retw') != self.win:
                raise Fail('abi-window', '%s: wrong return instruction for the %s ABI' % (self.cur, self.isa))
            self.ret_to(self.r[0])
        elif mn in ('l32i', 's32i'):
            off = toint(ops[2])
            if off % 4 or not 0 <= off <= 1020:
                self.fail('isa-subset', self.cur + ': offset not encodable')
            a = norm(rv(ops[1]) + off, 32)
            if mn == 'l32i':
                self.wr(ops[0], self.load(a, 4))
            else:
                self.store(a, rv(ops[0]), 4)
        elif mn in ('addi', 'addmi'):
            n = toint(ops[2])
            if not (-128 <= n <= 127 if mn == 'addi' else n % 256 == 0 and -32768 <= n <= 32512):
                self.fail('isa-subset', self.cur + ': immediate not encodable')
            self.wr(ops[0], norm(rv(ops[1]) + n, 32))
        elif mn in RV_ALU and len(ops) == 3:                     # add sub xor or and
            self.wr(ops[0], norm(RV_ALU[mn](rv(ops[1]), rv(ops[2])), 32))
        elif mn in ('mov', 'neg'):
            self.wr(ops[0], rv(ops[1]) if mn == 'mov' else norm(-rv(ops[1]), 32))
        elif mn == 'movi':
            self.wr(ops[0], toint(ops[1]) & M32)
        elif mn == 'ssai':
            self.sar = toint(ops[0])
            if not 0 <= self.sar <= 31:
                raise Fail('isa-subset', self.cur + ': shift amount out of range')
        elif mn == 'src':
            if self.sar is None:
                raise Fail('undef-flag', self.cur + ': SAR used before being set')
            self.wr(ops[0], ext(cat([(rv(ops[1]), 32), (rv(ops[2]), 32)]), self.sar + 31, self.sar))
        elif mn in ('slli', 'srli'):
            n = toint(ops[2])
            if not (1 <= n <= 31 if mn == 'slli' else 0 <= n <= 15):
                raise Fail('isa-subset', self.cur + ': shift amount out of range')
            self.wr(ops[0], (shl if mn == 'slli' else lshr)(rv(ops[1]), n, 32))
        elif mn in ('beqz', 'bnez', 'beqi', 'bnei', 'beq', 'bne'):
            a = rv(ops[0])
            b = 0 if mn[-1] == 'z' else toint(ops[1]) & M32 if mn[-1] == 'i' else rv(ops[1])
            if isc(a) and isc(b):
                self.nprops += 1
            else:
                self.concrete(a if isc(b) else b, 'branch condition')
            if (a == b) == (mn[1] == 'e'):
                self.npc = self.target(ops[-1])
        elif mn == 'j':
            self.npc = self.target(ops[0])
        elif mn == 'nop':
            pass
        else:
            raise Unmodelled(self.cur + ': instruction not modelled')


# ---------------------------------------------------------------- ISA table
ISAS = {
    'armv6': (Arm, 'armv6', ['-D__ARM_ARCH=6'], '@'),
    'armv6m': (Arm, 'armv6m', ['-D__ARM_ARCH_ISA_THUMB=1', '-D__ARM_ARCH=6', '-D__ARM_ARCH_6M__'], '@'),
    'armv7m': (Arm, 'armv7m', ['-D__ARM_ARCH_ISA_THUMB=2', '-D__ARM_ARCH=7'], '@'),
    'avr5': (Avr, 'avr5', ['-D__AVR__', '-D__AVR_ARCH__=5'], ';'),
    'riscv32e': (RiscV, 'riscv32e', ['-D__riscv', '-D__riscv_xlen=32', '-D__riscv_32e'], '#'),
    'riscv32i': (RiscV, 'riscv32i', ['-D__riscv', '-D__riscv_xlen=32'], '#'),
    'riscv64i': (RiscV, 'riscv64i', ['-D__riscv', '-D__riscv_xlen=64'], '#'),
    'xtensa-call0': (Xtensa, 'xtensa', ['-D__XTENSA__'], '#'),
    'xtensa-windowed': (Xtensa, 'xtensa', ['-D__XTENSA__', '-D__XTENSA_WINDOWED_ABI__'], '#'),
}


def load_prog(path, isa): return parse(preprocess(path, ISAS[isa][2]), ISAS[isa][3])
def make(prog, isa, kb, s, k, r, rng): return ISAS[isa][0](prog, isa, kb, s, k, r, rng)
def budget(r): return 20000 + 2000 * r
def hexw(ws): return ['0x%08x' % w for w in ws]
def rand_words(rng, n): return [rng.getrandbits(32) for _ in range(n)]


def run_concrete(prog, isa, kb, s, k, r, rng):
    """-> (output words or None, list of failures)."""
    try:
        m = make(prog, isa, kb, list(s), list(k), r, rng).run(budget(r))
        return m.out_words(), m.fails
    except Fail as e:
        return None, [[e.fid, e.msg]]


# ------------------------------------------------------------------- driver
def counterexample(prog, isa, kb, s, k, r, rng):
    asm, _ = run_concrete(prog, isa, kb, s, k, r, rng)
    spec = ref_bitserial(s, k, r)
    return {'state': hexw(s), 'key_inverted': hexw(k), 'rounds': r, 'asm': hexw(asm) if asm else None,
            'spec': hexw(spec), 'reproduced': asm != spec}


def check(path, isa, kb, r, timeout, seed):
    rng = random.Random(seed)
    res = {'status': 'PASS', 'failed': [], 'why': '', 'nprops': 0, 'steps': 0, 'queries': 0,
           'solver_s': 0.0, 'cut_points': '0/%d' % (4 * r)}
    sym = None
    try:
        prog = load_prog(path, isa)
        kw = kb // 32
        S = [z3.BitVec('s%d' % i, 32) for i in range(4)]
        K = [z3.BitVec('k%d' % i, 32) for i in range(kw)]
        V = [z3.BitVec('v%d' % j, 32) for j in range(4 * r)]      # definitional constants of the spec chain
        chain = S + V
        D = [b32(chain[j], chain[j + 1], chain[j + 2], chain[j + 3], K[j % kw]) for j in range(4 * r)]
        sym = make(prog, isa, kb, S, K, r, rng)
        shadows = []
        for _ in range(3 if sym.PIECES == 1 else 8):           # concrete shadow runs: the random pre-filter
            s, k = rand_words(rng, 4), rand_words(rng, kw)
            shadows.append((make(prog, isa, kb, s, k, r, rng), chain_words(s, k, r), s, k))
        nxt, got, matched, since, defs = 0, set(), 0, 0, []
        limit = 300 if sym.PIECES == 1 else 1200               # instructions without a new cut before giving up
        while not sym.done:
            if sym.steps >= budget(r):
                raise Fail('no-return', 'no return within %d instructions' % budget(r))
            sym.step()
            for sh in shadows:
                sh[0].step()
            since += 1
            for loc in sym.written:
                val = sym.getloc(loc)
                if isc(val):
                    continue
                if since > limit:       # lock-step lost: name every value so that terms stay small (SSA form)
                    if not z3.is_const(val):
                        t = z3.BitVec('t%d' % len(defs), val.size())
                        defs.append(t == val)
                        sym.setloc(loc, t)
                    continue
                if nxt == 4 * r:
                    continue
                for p in range(sym.PIECES):
                    if p in got or any(sh.getloc(loc) != sh.emb(c[nxt], p) for sh, c, _, _ in shadows):
                        continue
                    if Q.neq([(val, sym.emb(D[nxt], p))], timeout)[0] == 'unsat':
                        sym.setloc(loc, sym.emb(V[nxt], p))
                        got.add(p)
                    break
                if len(got) == sym.PIECES:
                    nxt, got, matched, since = nxt + 1, set(), matched + 1, 0
        res['cut_points'] = '%d/%d' % (matched, 4 * r)
        res['nprops'] += matched + 4
        pairs = [(a, chain[4 * r + i]) for i, a in enumerate(sym.out_words())]
        if not all(same_syntactic(a, b) for a, b in pairs):
            # Lock-step incomplete: one monolithic query over the definitions of all v_j (and t_i).  If one of
            # the random shadow runs already disagrees with the reference, pin the inputs to it (pure propagation).
            defs += [V[j] == D[j] for j in range(4 * r)]
            wit = [(s, k) for sh, _, s, k in shadows if sh.out_words() != ref_bitserial(s, k, r)][:1]
            pin = [x == w for x, w in zip(S + K, wit[0][0] + wit[0][1])] if wit else []
            st, model = Q.neq(pairs, timeout, defs + pin)
            if st == 'sat':
                val = lambda x: model.eval(x, model_completion=True).as_long()
                res['counterexample'] = counterexample(prog, isa, kb, [val(x) for x in S], [val(x) for x in K], r, rng)
                res['failed'].append(['functional', 'stored state differs from the specification (solver model%s)'
                                      % (', inputs pinned to a failing random run' if wit else '')])
            elif wit:
                res['counterexample'] = counterexample(prog, isa, kb, wit[0][0], wit[0][1], r, rng)
                res['failed'].append(['functional', 'stored state differs from the specification (concrete random '
                                      'run; solver on the pinned inputs returned %s)' % st])
            elif st != 'unsat':
                res['status'], res['why'] = 'INCONCLUSIVE', 'monolithic equivalence query returned ' + st
    except Fail as e:
        res['failed'].append([e.fid, e.msg])
    except Unmodelled as e:
        res['status'], res['why'] = 'INCONCLUSIVE', str(e)
    if sym is not None:
        res['failed'] += sym.fails
        res['nprops'] += sym.nprops
        res['steps'] = sym.steps
    if res['failed']:
        res['status'] = 'FAIL'
    res['queries'], res['solver_s'] = Q.n, round(Q.t, 3)
    return res


def same_syntactic(a, b): return a == b if isc(a) and isc(b) else (not isc(a) and not isc(b) and a.eq(b))


# ----------------------------------------------------------------- selftest
VECTORS = {128: ([0x33221100, 0x77665544, 0xbbaa9988, 0xffeeddcc], 8,
                 [0xd9025b75, 0xdea7c711, 0xc42bfe5c, 0x361e5016]),
           256: ([0x33221100, 0x77665544, 0xbbaa9988, 0xffeeddcc, 0x9687b4a5, 0xd2c3f0e1, 0x1e0f3c2d, 0x5a4b7869], 10,
                 [0xf066f253, 0xa8cf13ed, 0xd46f2eb9, 0xbd4c5e4a]),
           192: ([0x33221100, 0x77665544, 0xbbaa9988, 0xffeeddcc, 0x9687b4a5, 0xd2c3f0e1], 9,
                 [0xeb03d4da, 0x14894342, 0xb0d7ba4d, 0x025b53a6])}
VEC_IN = [0x03020100, 0x07060504, 0x0b0a0908, 0x0f0e0d0c]


def selftest(seed):
    rng, failed, details, n = random.Random(seed), [], {}, 0
    for kb, (key, r, want) in VECTORS.items():       # the references themselves against the test vectors
        kinv = [w ^ M32 for w in key]
        n += 2
        if ref_bitserial(VEC_IN, kinv, r) != want or ref_words(VEC_IN, kinv, r) != want:
            failed.append(['reference-%d' % kb, 'Python reference does not reproduce the test vector'])
    for isa in ISAS:
        for kb, (key, r, want) in VECTORS.items():
            tag = 'tinyjambu-%d-asm-%s.S/%s' % (kb, ISAS[isa][1], isa)
            bad = []
            try:
                prog = load_prog('%s/tinyjambu-%d-asm-%s.S' % (BACKEND, kb, ISAS[isa][1]), isa)
                cases = [(VEC_IN, [w ^ M32 for w in key], r, want)]
                for rr in (1, 2, 3, 5, 8):
                    for _ in range(2):
                        s, k = rand_words(rng, 4), rand_words(rng, kb // 32)
                        cases.append((s, k, rr, ref_bitserial(s, k, rr)))
                for i, (s, k, rr, exp) in enumerate(cases):
                    n += 1
                    out, fails = run_concrete(prog, isa, kb, s, k, rr, rng)
                    if out != exp or fails:
                        bad.append('%s r=%d: got %s want %s %s' % ('test vector' if i == 0 else 'random',
                                   rr, hexw(out) if out else None, hexw(exp), fails))
            except Unmodelled as e:
                bad.append('unmodelled: %s' % e)
            details[tag] = 'ok' if not bad else bad
            if bad:
                failed.append([tag, '; '.join(bad)[:400]])
    return {'status': 'FAIL' if failed else 'PASS', 'failed': failed, 'why': '', 'nprops': n,
            'backends': len(details), 'details': details}


def main():
    ap = argparse.ArgumentParser(description=__doc__)
    ap.add_argument('--file')
    ap.add_argument('--isa', choices=sorted(ISAS))
    ap.add_argument('--keybits', type=int, choices=[128, 192, 256])
    ap.add_argument('--rounds', type=int)
    ap.add_argument('--timeout', type=float, default=60)
    ap.add_argument('--seed', type=int, default=1)
    ap.add_argument('--selftest', action='store_true')
    ap.add_argument('--lemma-a', action='store_true')
    a = ap.parse_args()
    z3.set_param('smt.random_seed', a.seed & 0x7fffffff)
    z3.set_param('sat.random_seed', a.seed & 0x7fffffff)
    t0 = time.time()
    if a.selftest:
        res = selftest(a.seed)
    elif a.lemma_a:
        st = lemma_a(a.timeout)
        res = {'status': {'unsat': 'PASS', 'sat': 'FAIL'}.get(st, 'INCONCLUSIVE'), 'failed': [], 'nprops': 1,
               'why': '' if st in ('sat', 'unsat') else 'solver returned ' + st, 'queries': Q.n,
               'solver_s': round(Q.t, 3), 'lemma': 'A: 32 bit-serial NLFSR steps with key word ~kinv == '
               'B32(w0,w1,w2,w3,kinv) and word rotation, for all inputs'}
        if st == 'sat':
            res['failed'] = [['lemma-a', 'word-sliced block differs from 32 bit-serial steps']]
    else:
        if None in (a.file, a.isa, a.keybits, a.rounds) or a.rounds < 0:
            ap.error('--file, --isa, --keybits and --rounds (>= 0) are required')
        la = lemma_a(a.timeout)
        res = check(a.file, a.isa, a.keybits, a.rounds, a.timeout, a.seed)
        res['lemma_a'] = {'unsat': 'proved'}.get(la, la)
        res['nprops'] += 1
        res['queries'], res['solver_s'] = Q.n, round(Q.t, 3)
        if la != 'unsat' and res['status'] == 'PASS':
            res['status'], res['why'] = ('FAIL', '') if la == 'sat' else ('INCONCLUSIVE', 'Lemma A: solver returned ' + la)
            if la == 'sat':
                res['failed'].append(['lemma-a', 'word-sliced block differs from 32 bit-serial steps'])
        res.update(file=a.file, isa=a.isa, keybits=a.keybits, rounds=a.rounds)
    res['wall_s'] = round(time.time() - t0, 3)
    print('RESULT ' + json.dumps(res))


if __name__ == '__main__':
    main()
