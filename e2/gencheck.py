#!/usr/bin/env python3-vt
"""E2 companion checks (prints one RESULT line):
 (a) GENERATOR IDENTITY: the assembly generators under /repo/tools/gen{arm,riscv,xtensa}, built with the
     host gcc exactly as their Makefiles say, reproduce the checked-in /repo/src/backend/*.S byte for byte.
 (b) SELECTION: for every documented target macro set exactly one backend translation unit per key size
     defines tinyjambu_permutation_N, and it is the intended one."""
import glob, json, os, re, subprocess, sys, tempfile

import os as _os
REPO = _os.environ.get('VERIF_REPO', '/repo')
BACKEND = REPO + '/src/backend'
HERE = os.path.dirname(os.path.abspath(__file__))
CFLAGS = ['-g', '-Wall', '-Wextra', '-Wno-unused-parameter']      # COMMON_CFLAGS of tools/common/options.mak + Makefile
# name -> (macros, TINYJAMBU_BACKEND_* expected, file stem expected to define the permutation)
TARGETS = {
    'armv7m': (['-D__ARM_ARCH_ISA_THUMB=2', '-D__ARM_ARCH=7'], 'ARMV7M', 'asm-armv7m.S'),
    'armv6m': (['-D__ARM_ARCH_ISA_THUMB=1', '-D__ARM_ARCH=6', '-D__ARM_ARCH_6M__'], 'ARMV6M', 'asm-armv6m.S'),
    'armv6': (['-D__ARM_ARCH=6'], 'ARMV6', 'asm-armv6.S'),
    'avr5': (['-D__AVR__', '-D__AVR_ARCH__=5'], 'AVR5', 'asm-avr5.S'),
    'riscv64i': (['-D__riscv', '-D__riscv_xlen=64'], 'RISCV64I', 'asm-riscv64i.S'),
    'riscv32e': (['-D__riscv', '-D__riscv_xlen=32', '-D__riscv_32e'], 'RISCV32E', 'asm-riscv32e.S'),
    'riscv32i': (['-D__riscv', '-D__riscv_xlen=32'], 'RISCV32I', 'asm-riscv32i.S'),
    'xtensa-call0': (['-D__XTENSA__'], 'XTENSA', 'asm-xtensa.S'),
    'xtensa-windowed': (['-D__XTENSA__', '-D__XTENSA_WINDOWED_ABI__'], 'XTENSA', 'asm-xtensa.S'),
    # not in the documented list, checked as well:
    'armv8m (extra)': (['-D__ARM_ARCH_ISA_THUMB=2', '-D__ARM_ARCH=8', '-D__ARM_ARCH_8M__'], 'ARMV7M', 'asm-armv7m.S'),
    'no target macros (extra)': ([], 'C32', 'c32.c'),
    'armv7m + TINYJAMBU_FORCE_C32 (extra)': (['-D__ARM_ARCH_ISA_THUMB=2', '-D__ARM_ARCH=7', '-DTINYJAMBU_FORCE_C32'], 'C32', 'c32.c'),
    'avr arch 3 (extra)': (['-D__AVR__', '-D__AVR_ARCH__=3'], 'C32', 'c32.c'),
}


def run(cmd, **kw): return subprocess.run(cmd, capture_output=True, **kw)


def generators(tmp, failed):
    out, covered = [], set()
    for mk in sorted(glob.glob(REPO + '/tools/gen*/Makefile')):
        d, text = os.path.dirname(mk), open(mk).read()
        built = {}
        for name, src, extra in re.findall(r'^bin/(\w+):\s*(\S+\.c).*\n(?:\t@.*\n)*\t\$\(CC\)(.*?)\$\(CFLAGS\)', text, re.M):
            exe = os.path.join(tmp, name)
            p = run(['gcc'] + extra.split() + CFLAGS + ['-I', REPO + '/tools/common', '-o', exe, os.path.join(d, src)])
            built[name] = exe if p.returncode == 0 else None
            if p.returncode:
                failed.append(['gen-build', '%s: %s' % (name, p.stderr.decode()[-300:])])
        for name, arg, target in re.findall(r'^\tbin/(\w+)\s+(\d+)\s*>\s*\.\./\.\./src/backend/(\S+)', text, re.M):
            ent = {'generator': '%s/%s %s' % (os.path.basename(d), name, arg), 'file': target, 'identical': False}
            covered.add(target)
            if built.get(name):
                p = run([built[name], arg])
                path = os.path.join(BACKEND, target)
                ent['identical'] = p.returncode == 0 and os.path.exists(path) and p.stdout == open(path, 'rb').read()
            if not ent['identical']:
                failed.append(['gen-differs', '%s does not reproduce %s' % (ent['generator'], target)])
            out.append(ent)
    nogen = sorted(os.path.basename(f) for f in glob.glob(BACKEND + '/*.S') if os.path.basename(f) not in covered)
    return out, nogen


def cpp(path, defs, stub, lang):
    """Preprocess hermetically (-undef -nostdinc); headers that do not exist become empty stubs."""
    base = ['gcc', '-E', '-undef', '-nostdinc', '-x', lang, '-I', REPO + '/src', '-I', BACKEND, '-I', stub,
            '-I', os.path.join(HERE, 'stub')]
    if lang == 'c':
        # __STDC__/__STDC_VERSION__ survive -undef; every gcc target defines the byte-order macros util.h tests
        base += ['-std=c99', '-D__BYTE_ORDER__=1234', '-D__ORDER_LITTLE_ENDIAN__=1234', '-D__ORDER_BIG_ENDIAN__=4321']
    for _ in range(20):
        p = run(base + defs + [path], text=True)
        m = re.search(r'fatal error: (\S+): No such file', p.stderr)
        if p.returncode == 0 or not m:
            return p.stdout if p.returncode == 0 else None
        os.makedirs(os.path.dirname(os.path.join(stub, m.group(1))), exist_ok=True)
        open(os.path.join(stub, m.group(1)), 'w').close()
    return None


def selection(tmp, failed):
    stub, out = os.path.join(tmp, 'stubinc'), []
    os.mkdir(stub)
    for name, (defs, want, stem) in TARGETS.items():
        p = run(['gcc', '-E', '-dM', '-undef', '-nostdinc', '-x', 'c'] + defs + [BACKEND + '/tinyjambu-backend-select.h'], text=True)
        sel = sorted(re.findall(r'#define TINYJAMBU_BACKEND_(?!SELECT_H)(\w+) ', p.stdout))
        ent = {'target': name, 'macros': defs, 'expected': want, 'selected': sel, 'defining_files': {}}
        ok = sel == [want]
        for kb in (128, 192, 256):
            files = sorted(glob.glob('%s/tinyjambu-%d-asm-*.S' % (BACKEND, kb))) + ['%s/tinyjambu-%d-c32.c' % (BACKEND, kb)]
            defining = []
            for f in files:
                c = f.endswith('.c')
                text = cpp(f, defs, stub, 'c' if c else 'assembler-with-cpp')
                if text is None:
                    failed.append(['cpp', 'cannot preprocess %s for %s' % (os.path.basename(f), name)])
                    ok = False
                elif re.search(r'tinyjambu_permutation_%d\s*\([^;{]*\)\s*\{' % kb if c else r'^\s*tinyjambu_permutation_%d:' % kb, text, re.M):
                    defining.append(os.path.basename(f))
            ent['defining_files'][str(kb)] = defining
            ok &= defining == ['tinyjambu-%d-%s' % (kb, stem)]
        ent['ok'] = ok
        if not ok:
            failed.append(['selection', '%s: selected %s, defining files %s' % (name, sel, ent['defining_files'])])
        out.append(ent)
    return out


def main():
    failed = []
    with tempfile.TemporaryDirectory(prefix='e2gen-') as tmp:       # removed on exit, also on exceptions
        gens, nogen = generators(tmp, failed)
        sel = selection(tmp, failed)
    res = {'status': 'FAIL' if failed else 'PASS', 'failed': failed, 'why': '',
           'nprops': len(gens) + 4 * len(sel),
           'generator_identity': gens + [{'generator': 'no generator', 'file': f, 'identical': None} for f in nogen],
           'identical': sum(1 for g in gens if g['identical']), 'generated_files': len(gens), 'no_generator': nogen,
           'selection': sel}
    print('RESULT ' + json.dumps(res))


if __name__ == '__main__':
    main()
