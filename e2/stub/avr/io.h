/* empty stand-in for <avr/io.h>: the TinyJAMBU AVR backend uses no I/O register names */
