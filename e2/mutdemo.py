#!/usr/bin/env python3-vt
"""Demonstrates that asmcheck.py can FAIL: mutated copies of backend files (one textual mutation each,
made in a temporary directory that is removed afterwards) must be rejected."""
import json, os, re, shutil, subprocess, sys, tempfile

HERE = os.path.dirname(os.path.abspath(__file__))
B = '/repo/src/backend'
# (file suffix, isa, keybits, rounds, description, regex, replacement, expected failure id)
MUTANTS = [
    ('armv7m', 'armv7m', 128, 8, 'shift amount 15 -> 14', r'lsr #15', 'lsr #14', 'functional'),
    ('armv6', 'armv6', 128, 24, 'key offset 16 -> 20', r'\[r0, #16\]', '[r0, #20]', 'functional'),
    ('armv6', 'armv6', 128, 10, 'pop removed', r'\tpop\t.*\n', '', 'sp-mismatch'),
    ('armv6m', 'armv6m', 192, 9, 'r7 dropped from the pop list', r'pop\t\{r4, r5, r6, r7, pc\}', 'pop\t{r4, r5, r6, pc}', 'bad-return'),
    ('armv7m', 'armv7m', 128, 8, 'state word stored over k[0]', r'str\tr2, \[r0, #0\]', 'str\tr2, [r0, #16]', 'store-outside'),
    ('armv6m', 'armv6m', 128, 8, 'loop counter taken from state', r'subs\tr1, r1, #1', 'subs\tr1, r2, #1', 'secret-branch'),
    ('avr5', 'avr5', 128, 24, 'key offset Z+28 -> Z+24', r'ldd r0,Z\+28', 'ldd r0,Z+24', 'functional'),
    ('avr5', 'avr5', 256, 10, 'rol -> lsl (carry chain cut)', r'rol r14', 'lsl r14', 'functional'),
    ('avr5', 'avr5', 192, 9, 'pop r17 removed', r'\tpop r17\n', '', 'sp-mismatch'),
    ('riscv32i', 'riscv32i', 256, 10, 'shift amount 15 -> 16', r'srli\tt0, a3, 15', 'srli\tt0, a3, 16', 'functional'),
    ('riscv64i', 'riscv64i', 192, 9, 'restore of s0 removed', r'\tld\ts0, \(sp\)\n', '', 'callee-saved'),
    ('riscv32e', 'riscv32e', 128, 8, 's0 replaced by t3 (x28)', r'\bs0\b', 't3', 'isa-reg'),
    ('xtensa', 'xtensa-windowed', 192, 9, 'ssai 15 -> ssai 14', r'ssai\t15', 'ssai\t14', 'functional'),
    ('xtensa', 'xtensa-call0', 128, 8, 'restore of a12 removed', r'\tl32i.n\ta12, sp, 0\n', '', 'callee-saved'),
    ('xtensa', 'xtensa-windowed', 256, 10, 'retw.n -> ret.n', r'retw\.n', 'ret.n', 'abi-window'),
]


def main():
    tmp, ok = tempfile.mkdtemp(prefix='e2mut-'), True
    try:
        for n, (suf, isa, kb, r, desc, pat, rep, want) in enumerate(MUTANTS):
            name = 'tinyjambu-%d-asm-%s.S' % (kb, suf)
            src = open(os.path.join(B, name)).read()
            everywhere = want == 'isa-reg'
            mut, cnt = re.subn(pat, lambda m: rep, src, count=0 if everywhere else 1)
            assert cnt >= 1 and mut != src, 'mutation %d did not apply' % n
            d = os.path.join(tmp, str(n))
            os.mkdir(d)
            open(os.path.join(d, name), 'w').write(mut)
            out = subprocess.run(['python3-vt', os.path.join(HERE, 'asmcheck.py'), '--file', os.path.join(d, name), '--isa', isa,
                                  '--keybits', str(kb), '--rounds', str(r)], capture_output=True, text=True).stdout
            res = json.loads([l for l in out.splitlines() if l.startswith('RESULT ')][0][7:])
            ids = sorted({f[0] for f in res['failed']})
            cx = res.get('counterexample')
            good = res['status'] == 'FAIL' and want in ids and (want != 'functional' or (cx and cx['reproduced']))
            ok &= good
            print('%-4s %-26s %-16s r=%-2d %-34s -> %s %s%s  [%.1fs]' % (
                'ok' if good else 'BAD', name, isa, r, desc, res['status'], ','.join(ids),
                ' cex reproduced=%s state=%s key_inv=%s' % (cx['reproduced'], cx['state'], cx['key_inverted']) if cx else '',
                res['wall_s']))
    finally:
        shutil.rmtree(tmp, ignore_errors=True)
    print('RESULT ' + json.dumps({'status': 'PASS' if ok else 'FAIL', 'mutants': len(MUTANTS)}))
    return 0 if ok else 1


if __name__ == '__main__':
    sys.exit(main())
