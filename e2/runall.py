#!/usr/bin/env python3-vt
"""Runs asmcheck.py on every backend file x ABI variant x rounds and prints the status/timing table."""
import json, os, subprocess, sys, time
from concurrent.futures import ThreadPoolExecutor

HERE = os.path.dirname(os.path.abspath(__file__))
ROUNDS = [int(x) for x in sys.argv[1:]] or [1, 2, 3, 5, 8, 9, 10, 20, 24]
ISAS = ['armv6', 'armv6m', 'armv7m', 'avr5', 'riscv32e', 'riscv32i', 'riscv64i', 'xtensa-call0', 'xtensa-windowed']


def one(job):
    isa, kb, r = job
    f = '/repo/src/backend/tinyjambu-%d-asm-%s.S' % (kb, isa.split('-')[0])
    t = time.time()
    out = subprocess.run(['python3-vt', os.path.join(HERE, 'asmcheck.py'), '--file', f, '--isa', isa, '--keybits', str(kb),
                          '--rounds', str(r)], capture_output=True, text=True).stdout
    line = [l for l in out.splitlines() if l.startswith('RESULT ')]
    return job, (json.loads(line[0][7:]) if line else {'status': 'CRASH', 'cut_points': '-'}), time.time() - t


jobs = [(isa, kb, r) for isa in ISAS for kb in (128, 192, 256) for r in ROUNDS]
with ThreadPoolExecutor(max_workers=int(os.environ.get('JOBS', '6'))) as ex:
    results = {j: (res, t) for j, res, t in ex.map(one, jobs)}
print('%-34s' % 'file / variant (status seconds)' + ''.join('%11s' % ('r=%d' % r) for r in ROUNDS))
bad = 0
for isa in ISAS:
    for kb in (128, 192, 256):
        row = '%-34s' % ('tinyjambu-%d-asm-%s.S %s' % (kb, isa.split('-')[0], isa.split('-')[1] if '-' in isa else ''))
        for r in ROUNDS:
            res, t = results[(isa, kb, r)]
            full = res['cut_points'].split('/')[0] == str(4 * r)
            bad += res['status'] != 'PASS' or not full
            row += '%11s' % ('%s%s %.1f' % (res['status'], '' if full else '*', t))
        print(row)
print('RESULT ' + json.dumps({'status': 'FAIL' if bad else 'PASS', 'runs': len(jobs), 'not_pass': bad,
                              'solver_s_total': round(sum(r.get('solver_s', 0) for r, _ in results.values()), 1)}))
