#!/usr/bin/env python3
"""Harness self-test (part of setup): for every harness file, one query per distinct (harness, variant) is compiled
NATIVELY against the real library sources and run on seeded random inputs.  On a tree where the properties hold
every run must end OK (or ASSUME-unmet): this validates the native replay path and, independently of the solver,
that the harness assertions are satisfiable statements about the real code."""
import os, sys
sys.path.insert(0, os.path.dirname(os.path.abspath(__file__)))
import driver as D, props

def main():
    seen, bad, n = set(), 0, 0
    for pid in sorted(props.PROPS):
        jobs = props.PROPS[pid]("quick")[0]
        for j in jobs:
            if j.kind != "cbmc" or getattr(j, "probe", False):
                continue                      # probes have no native form of their own (their confirmation harness is covered)
            key = (os.path.basename(j.harness), j.defines.get("VARIANT"), j.defines.get("API"), j.defines.get("MODE"), j.defines.get("FAMILY"),
                   j.config, bool(j.instrument))
            if key in seen:
                continue
            seen.add(key)
            exe = D.native_build(j)
            if not exe:
                print("selftest: native build FAILED for", pid, j.name); bad += 1; continue
            for seed in (1, 2, 3):
                st, out = D.native_run(exe, None, seed)
                n += 1
                if st not in ("OK", "ASSUME"):
                    print("selftest: %s %s seed %d -> %s %s" % (pid, j.name, seed, st, out.strip()[-200:])); bad += 1
    print("native harness self-test: %d harness variants, %d runs, %d problems" % (len(seen), n, bad))
    return 1 if bad else 0

if __name__ == "__main__":
    sys.exit(main())
