#!/usr/bin/env python3
"""Generates seeded/README.md from seeded/*/meta.json and the recorded check results."""
import glob, json, os, re
V = os.path.dirname(os.path.dirname(os.path.abspath(__file__)))
rows = []
for d in sorted(glob.glob(os.path.join(V, "seeded", "*", ""))):
    name = os.path.basename(os.path.dirname(d))
    try:
        meta = json.load(open(os.path.join(d, "meta.json")))
    except Exception:
        meta = {}
    res = []
    for r in sorted(glob.glob(os.path.join(d, "result-*.txt"))):
        txt = open(r).read()
        prop = re.search(r"result-(\w+)\.txt", r).group(1)
        viol = re.findall(r"^VIOLATION property=\S+ replay=\S+", txt, re.M)
        first = re.search(r"^  failed query (\S+): (.*?);", txt, re.M)
        last = txt.strip().splitlines()[-1] if txt.strip() else ""
        res.append((prop, len(viol), first.group(1) + ": " + first.group(2)[:140] if first else "", last))
    rows.append((name, meta, res))
out = ["# Seeded changes", "",
       "Each directory holds one change to rweather/TinyJAMBU written by an independent sub-agent that saw only the text of one",
       "property (nothing from /verif), with its demonstration (`run_demo.sh <repo-root>`: exit 1 = property broken), `patch.diff`",
       "and `meta.json`.  Every change was confirmed in a scratch worktree: the repository's test suite still passes (22/22 ctest",
       "entries) with the change, the demonstration fails with it and passes without it.  `result-<prop>.txt` is the output of",
       "`./check <prop> --tier quick` with the patch applied to /repo (reverted afterwards).", "",
       "| change | property | what was changed / what it needs | detected by `./check` (quick) |", "|---|---|---|---|"]
for name, meta, res in rows:
    what = (meta.get("summary", "") + " NEEDS: " + str(meta.get("needs", ""))).replace("|", "/").replace("\n", " ")
    det = "<br>".join("%s: %s (%d VIOLATION lines) %s" % (p, "DETECTED" if n else "not detected", n, f.replace("|", "/")) for p, n, f, l in res) or "not run yet"
    out.append("| %s | %s | %s | %s |" % (name, meta.get("property", name.split("-")[0]), what[:600], det))
open(os.path.join(V, "seeded", "README.md"), "w").write("\n".join(out) + "\n")
print("\n".join(out[-len(rows):])[:3000])
