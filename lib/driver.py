"""Parallel query runner, counterexample replay and evidence writer.

A *query* is one solver-decided obligation: a CBMC run over the real translation units of
/repo (engine E1) or an invocation of one of the symbolic executors (E2/E3) that prints a
JSON verdict.  Everything is rebuilt from /repo's current working tree in a scratch
directory that is removed on exit.
"""
import atexit
import concurrent.futures as cf
import json
import os
import re
import shutil
import subprocess
import sys
import tempfile
import time

VERIF = os.path.dirname(os.path.dirname(os.path.abspath(__file__)))
REPO = os.environ.get("VERIF_REPO", "/repo")
SRC = os.path.join(REPO, "src")
HARN = os.path.join(VERIF, "harness")
MODELS = os.path.join(VERIF, "models")
EVID = os.environ.get("VERIF_EVIDENCE_DIR") or os.path.join(VERIF, "evidence")   # seeded-change runs write elsewhere
REPLAY_DIR = os.path.join(EVID, "replay")
KNOWN = os.path.join(VERIF, "known-findings.txt")
NJOBS = int(os.environ.get("VERIF_JOBS", "16"))
SEED = int(os.environ.get("VERIF_SEED", "0") or 0)

_scratch = None


def scratch():
    global _scratch
    if _scratch is None:
        _scratch = tempfile.mkdtemp(prefix="tjverif-")
        atexit.register(lambda: shutil.rmtree(_scratch, ignore_errors=True))
    return _scratch


# ------------------------------------------------------------------------------------
# config.h variants (generated from /repo/config.h.in on every run)
# ------------------------------------------------------------------------------------
HOST_FEATURES = ["HAVE_STRINGS_H", "HAVE_EXPLICIT_BZERO", "HAVE_SYS_RANDOM_H", "HAVE_SYS_SYSCALL_H",
                 "HAVE_TIME_H", "HAVE_SYS_TIME_H", "HAVE_GETRANDOM", "HAVE_GETENTROPY", "HAVE_TIME",
                 "HAVE_GETTIMEOFDAY", "HAVE_CLOCK_GETTIME", "HAVE_UNISTD_H", "HAVE_FCNTL_H"]
CONFIGS = {
    "default": HOST_FEATURES,                                   # what cmake finds on this host
    "volatile": [f for f in HOST_FEATURES if f != "HAVE_EXPLICIT_BZERO"],
    "memset_s": [f for f in HOST_FEATURES if f != "HAVE_EXPLICIT_BZERO"] + ["HAVE_MEMSET_S"],
    "getentropy": [f for f in HOST_FEATURES if f != "HAVE_GETRANDOM"],
    "syscall": [f for f in HOST_FEATURES if f not in ("HAVE_GETRANDOM", "HAVE_GETENTROPY")],
}


import threading
_cfg_lock = threading.Lock()


def config_dir(name):
    with _cfg_lock:
        return _config_dir(name)


def _config_dir(name):
    d = os.path.join(scratch(), "cfg-" + name)
    if not os.path.isdir(d):
        os.makedirs(d)
        feats = set(CONFIGS[name])
        out = []
        for line in open(os.path.join(REPO, "config.h.in")):
            m = re.match(r"#cmakedefine\s+(\w+)", line)
            if m:
                out.append(("#define %s\n" % m.group(1)) if m.group(1) in feats
                           else ("/* #undef %s */\n" % m.group(1)))
            else:
                out.append(line)
        open(os.path.join(d, "config.h"), "w").write("".join(out))
    return d


# ------------------------------------------------------------------------------------
# library source sets
# ------------------------------------------------------------------------------------
def S(*names):
    return [os.path.join(SRC, n) for n in names]


def aead_srcs(ks, mode="aead"):
    return S("tinyjambu-%d-%s.c" % (ks, mode), "backend/tinyjambu-aead-common-%d.c" % ks,
             "backend/tinyjambu-util.c")


def perm_real(ks):
    return S("backend/tinyjambu-%d-c32.c" % ks)


PERM_UF = [os.path.join(HARN, "stubs/perm_uf.c")]
LIBC = [os.path.join(HARN, "stubs/libc.c")]
SPEC = [os.path.join(MODELS, "tj_spec.c")]
KDFSPEC = [os.path.join(MODELS, "kdf_spec.c")]
NATIVE = [os.path.join(HARN, "native.c")]
ABSHASH = [os.path.join(HARN, "stubs/abs_hash.c")]
CLEAN = S("backend/tinyjambu-clean.c")
HASH_REAL = S("tinyjambu-hash.c")
ALL_PERMS = perm_real(128) + perm_real(192) + perm_real(256)

CBMC_FLAGS = ["--unwinding-assertions", "--pointer-overflow-check", "--undefined-shift-check",
              "--signed-overflow-check", "--drop-unused-functions", "--object-bits", "10"]


class Job:
    """One CBMC query.  `defines` fixes the public shape; all data bytes are symbolic."""
    kind = "cbmc"

    def __init__(self, name, harness, defines, cbmc_srcs, native_srcs, backend="z3", unwind=40,
                 timeout=300, config="default", extra=(), facet="", unwindset=(), expect_fail=None,
                 shape=None, note="", instrument=(), branch_srcs=(), instrument_defs=()):
        self.name = name
        self.harness = os.path.join(HARN, harness)
        self.defines = dict(defines)
        self.cbmc_srcs = list(cbmc_srcs)
        self.native_srcs = list(native_srcs)
        self.backend = backend
        self.unwind = unwind
        self.timeout = timeout
        self.config = config
        self.extra = list(extra)
        self.facet = facet
        self.unwindset = list(unwindset)
        self.shape = shape if shape is not None else dict(defines, config=config, harness=harness)
        self.note = note
        # [(library source, [functions whose bodies are removed and supplied by the harness])]:
        # the TU is compiled by goto-cc, goto-instrument --remove-function-body drops the callees,
        # and the harness's recording stubs are linked instead (call-contract queries)
        self.instrument = [(a, tuple(b)) for a, b in instrument]
        # library sources compiled by goto-cc and instrumented with `goto-instrument --branch ct_obs` (C07)
        self.branch_srcs = list(branch_srcs)
        self.instrument_defs = list(instrument_defs)      # extra -D options for the instrumented TUs only

    def dflags(self):
        return ["-D%s=%s" % (k, v) if v is not None else "-D%s" % k for k, v in sorted(self.defines.items())]

    def incflags(self):
        return ["-DHAVE_CONFIG_H", "-I" + config_dir(self.config), "-I" + SRC, "-I" + HARN, "-I" + MODELS]

    def cbmc_cmd(self, trace_prop=None):
        pp = []
        ex = list(self.extra)
        while "-include" in ex:                       # preprocessor options must precede the sources
            i = ex.index("-include")
            pp += ex[i:i + 2]
            del ex[i:i + 2]
        cmd = ["cbmc"] + self.incflags() + pp + self.dflags() + [self.harness] + self.cbmc_srcs
        cmd += [instrumented_gb(self, src, funcs) for src, funcs in self.instrument]
        if self.branch_srcs:
            cmd.append(branch_gb(self))
        flags = list(CBMC_FLAGS)
        extra = ex
        if "--no-pointer-overflow-check-marker" in extra:
            extra.remove("--no-pointer-overflow-check-marker")
            flags.remove("--pointer-overflow-check")
        cmd += ["--unwind", str(self.unwind)] + flags + extra
        for u in self.unwindset:
            cmd += ["--unwindset", u]
        if self.backend == "z3":
            cmd.append("--z3")
        elif self.backend == "cadical":
            cmd += ["--sat-solver", "cadical"]
        elif self.backend == "kissat":
            cmd += ["--external-sat-solver", "kissat"]
        if trace_prop:
            cmd += ["--property", trace_prop, "--trace", "--json-ui"]
        else:
            cmd += ["--verbosity", "8"]          # statistics lines: symex steps, VCCs, solver time
        return cmd


class ProbeJob(Job):
    """Length-truncation probe (bug hunting, DESIGN 12.2(13)): symbolic LENGTH, loops cut by --partial-loops, only the
    narrowing-conversion checks are read.  `confirm` = (harness, defines, native_srcs, length_macro): on a hit the
    solver's length is compiled into that ordinary harness and run natively on random data."""
    kind = "cbmc"
    probe = True

    def __init__(self, name, harness, defines, cbmc_srcs, confirm, facet="", timeout=600, config="default"):
        Job.__init__(self, name, harness, defines, cbmc_srcs, [], backend="sat", unwind=3, timeout=timeout, config=config, facet=facet)
        self.confirm = confirm

    def cbmc_cmd(self, trace_prop=None):
        cmd = ["cbmc"] + self.incflags() + self.dflags() + [self.harness] + self.cbmc_srcs
        cmd += ["--unwind", "3", "--partial-loops", "--conversion-check", "--no-standard-checks", "--drop-unused-functions",
                "--object-bits", "10"]
        if trace_prop:
            cmd += ["--property", trace_prop, "--trace", "--json-ui"]
        return cmd


class CmdJob:
    """A query decided by one of the Python symbolic executors; prints one JSON object."""
    kind = "cmd"

    def __init__(self, name, cmd, timeout=600, facet="", shape=None, note=""):
        self.name = name
        self.cmd = cmd
        self.timeout = timeout
        self.facet = facet
        self.shape = shape or {}
        self.note = note
        self.backend = "z3py"


_gb_cache = {}
_gb_lock = None


def instrumented_gb(job, src, funcs):
    import threading
    global _gb_lock
    if _gb_lock is None:
        _gb_lock = threading.Lock()
    key = (src, funcs, tuple(sorted(job.defines.items())), job.config)
    with _gb_lock:
        if key in _gb_cache:
            return _gb_cache[key]
        base = os.path.join(scratch(), "gb-%d" % len(_gb_cache))
        rc, out, _ = run_proc(["goto-cc", "-c"] + job.incflags() + job.dflags() + job.instrument_defs + [src, "-o", base + ".gb"], 120)
        if rc != 0:
            raise RuntimeError("goto-cc failed: " + out[-500:])
        cmd = ["goto-instrument"]
        for f in funcs:
            cmd += ["--remove-function-body", f]
        rc, out, _ = run_proc(cmd + [base + ".gb", base + "-i.gb"], 120)
        if rc != 0:
            raise RuntimeError("goto-instrument failed: " + out[-500:])
        _gb_cache[key] = base + "-i.gb"
        return _gb_cache[key]


def branch_gb(job):
    import threading
    global _gb_lock
    if _gb_lock is None:
        _gb_lock = threading.Lock()
    key = ("branch", tuple(job.branch_srcs), tuple(sorted(job.defines.items())), job.config)
    with _gb_lock:
        if key in _gb_cache:
            return _gb_cache[key]
        base = os.path.join(scratch(), "br-%d" % len(_gb_cache))
        rc, out, _ = run_proc(["goto-cc"] + job.incflags() + job.dflags() + job.branch_srcs +
                              [os.path.join(HARN, "stubs/ct_decl.c"), "-o", base + ".gb"], 180)
        if rc != 0:
            raise RuntimeError("goto-cc failed: " + out[-500:])
        rc, out, _ = run_proc(["goto-instrument", "--branch", "ct_obs", base + ".gb", base + "-i.gb"], 180)
        if rc != 0:
            raise RuntimeError("goto-instrument --branch failed: " + out[-500:])
        _gb_cache[key] = base + "-i.gb"
        return _gb_cache[key]


RE_PROP = re.compile(r"^\[(.+?)\] (.*): (SUCCESS|FAILURE|UNKNOWN)$")


def run_proc(cmd, timeout, cwd=None, env=None):
    t0 = time.time()
    try:
        p = subprocess.Popen(cmd, stdout=subprocess.PIPE, stderr=subprocess.STDOUT, cwd=cwd, env=env,
                             start_new_session=True)
        try:
            out, _ = p.communicate(timeout=timeout)
            rc = p.returncode
        except subprocess.TimeoutExpired:
            try:
                os.killpg(p.pid, 9)
            except OSError:
                pass
            out, _ = p.communicate()
            rc = "timeout"
    except OSError as e:
        return "oserror", str(e), time.time() - t0
    return rc, out.decode("utf-8", "replace"), time.time() - t0


def run_cbmc(job):
    """-> dict(status=PASS|FAIL|VACUOUS|INCONCLUSIVE, failed=[(id,desc)], ...)"""
    import shlex
    # --verbosity 8 gives the statistics lines (symex steps, VCCs, solver time) but also one line per loop unwinding:
    # those are filtered out in a pipe so that long unrollings do not balloon the captured output
    pipeline = shlex.join(job.cbmc_cmd()) + " 2>&1 | grep -a -v -E '^(Unwinding|Not unwinding) (loop|recursion)'"
    rc, out, wall = run_proc(["bash", "-o", "pipefail", "-c", pipeline], job.timeout)
    res = {"name": job.name, "wall_s": round(wall, 2), "backend": job.backend, "facet": job.facet,
           "shape": job.shape, "failed": [], "nprops": 0, "steps": 0, "vccs": 0, "solver_s": 0.0}
    if rc == "timeout":
        res["status"] = "INCONCLUSIVE"
        res["why"] = "timeout after %ds" % job.timeout
        return res
    if getattr(job, "probe", False):
        for line in out.splitlines():
            m = RE_PROP.match(line)
            if m:
                pid, desc, st = m.groups()
                res["nprops"] += 1
                if st == "FAILURE" and "type conversion" in desc:
                    fn = pid.split(".")[0]
                    if fn == "main" or re.match(r"(fold_|spec_|abs_|mem|explicit_bzero|verif_)", fn):
                        continue                      # harness / stub / model code
                    if re.search(r"\((uint8_t|unsigned char|signed char|char|_Bool)\)", desc) and \
                            re.search(r"(>>|\b_x\b|\bdata\b|\bcarry\b|\bsum\b|\baccum\b|\bmask\b|\bdomain\b)", desc):
                        continue                      # explicit byte extraction from a word, not a length
                    res["failed"].append((pid, desc))
        if "VERIFICATION" not in out:
            res["status"] = "INCONCLUSIVE"
            res["why"] = "probe did not finish: " + out[-300:]
        else:
            res["status"] = "FAIL" if res["failed"] else "PASS"
        return res
    witness = None
    unwind_fail = []
    if re.search(r": UNKNOWN$", out, re.M) and re.search(r"pointer arithmetic: pointer NULL in .*: FAILURE$", out, re.M) \
            and "--pointer-overflow-check" in job.cbmc_cmd():
        # CBMC 6 reports every property behind a failed pointer-arithmetic check as UNKNOWN.  The failed
        # check is NULL + 0 on a zero-length buffer (a note, see below); re-decide the query without
        # --pointer-overflow-check (all dereference / bounds checks stay on) so the rest gets a verdict.
        import copy
        j2 = copy.copy(job)
        j2.extra = list(job.extra) + ["--no-pointer-overflow-check-marker"]
        r2 = run_cbmc(j2)
        r2.setdefault("notes_null_arith", []).append("NULL+0 pointer arithmetic on a zero-length buffer; re-decided without --pointer-overflow-check")
        r2["wall_s"] = round(r2["wall_s"] + wall, 2)
        return r2
    if re.search(r": UNKNOWN$", out, re.M) and job.backend != "sat":
        # non-incremental back ends (external SAT, SMT) leave the remaining properties UNKNOWN once
        # several fail in different iterations: re-decide this query on the incremental SAT back end
        import copy
        j2 = copy.copy(job)
        j2.backend = "sat"
        j2.timeout = max(job.timeout, 900)
        r2 = run_cbmc(j2)
        r2["backend"] = job.backend + "+sat(rerun)"
        r2["wall_s"] = round(r2["wall_s"] + wall, 2)
        return r2
    for line in out.splitlines():
        m = RE_PROP.match(line)
        if m:
            pid, desc, st = m.groups()
            res["nprops"] += 1
            if "WITNESS" in desc:
                witness = st
            elif " MUSTFAIL " in " " + desc:
                if st != "FAILURE":      # proved although it must be refutable: independence -> violation
                    res["failed"].append((pid, desc + " [proved, but must be refutable]"))
            elif st == "UNKNOWN":
                res.setdefault("unknown", []).append(pid)
            elif st != "SUCCESS" and "pointer arithmetic: pointer NULL in" in desc:
                # NULL + offset formed for a zero-length buffer (e.g. `out += len` with out == NULL,
                # len == 0).  Undefined by the letter of C99, defined by C2y (N3322) and harmless on every
                # implementation; like mem*(p, NULL, 0) it is recorded as a note, not as a violation.  A
                # NULL pointer with a non-zero offset that is ever dereferenced still fails the
                # dereference checks.
                res.setdefault("notes_null_arith", []).append(pid)
            elif st != "SUCCESS":
                if "unwinding assertion" in desc or ".unwind." in pid:
                    unwind_fail.append((pid, desc))
                else:
                    res["failed"].append((pid, desc))
            continue
        m = re.match(r"size of program expression: (\d+) steps", line)
        if m:
            res["steps"] = int(m.group(1))
        m = re.match(r"Generated (\d+) VCC\(s\), (\d+) remaining", line)
        if m:
            res["vccs"] = int(m.group(2))
        m = re.match(r"Runtime decision procedure: ([\d.e+-]+)s", line)
        if m:
            res["solver_s"] += float(m.group(1))
        m = re.match(r"Runtime Symex: ([\d.e+-]+)s", line)
        if m:
            res["symex_s"] = res.get("symex_s", 0.0) + float(m.group(1))
    done = ("VERIFICATION SUCCESSFUL" in out) or ("VERIFICATION FAILED" in out)
    if not done or rc not in (0, 10):
        res["status"] = "INCONCLUSIVE"
        res["why"] = "cbmc did not reach a verdict (rc=%s): %s" % (rc, out[-600:])
        return res
    res["unwind_failed"] = unwind_fail
    if res.get("unknown") and not res["failed"]:
        res["status"] = "INCONCLUSIVE"
        res["why"] = "%d properties left UNKNOWN by the back end" % len(res["unknown"])
        return res
    if res["failed"]:
        res["status"] = "FAIL"
    elif unwind_fail:
        res["status"] = "UNWIND"          # bound too small - or a loop that no longer terminates
    elif witness is None:
        res["status"] = "INCONCLUSIVE"
        res["why"] = "harness has no reachability witness"
    elif witness != "FAILURE":
        res["status"] = "VACUOUS"
        res["why"] = "reachability witness not reachable: assumptions unsatisfiable or end not reached"
    else:
        res["status"] = "PASS"
    return res


def run_cmdjob(job):
    rc, out, wall = run_proc(job.cmd, job.timeout)
    res = {"name": job.name, "wall_s": round(wall, 2), "backend": job.backend, "facet": job.facet,
           "shape": job.shape, "failed": [], "nprops": 0, "steps": 0, "vccs": 0, "solver_s": 0.0}
    if rc == "timeout":
        res["status"] = "INCONCLUSIVE"
        res["why"] = "timeout after %ds" % job.timeout
        return res
    js = None
    for line in out.splitlines():
        if line.startswith("RESULT "):
            try:
                js = json.loads(line[7:])
            except ValueError:
                pass
    if js is None:
        res["status"] = "INCONCLUSIVE"
        res["why"] = "no RESULT line (rc=%s): %s" % (rc, out[-800:])
        return res
    res.update(js)
    return res


def run_job(job):
    try:
        return run_cbmc(job) if job.kind == "cbmc" else run_cmdjob(job)
    except Exception as e:  # never let a worker die silently
        return {"name": job.name, "status": "INCONCLUSIVE", "why": "driver exception %r" % (e,),
                "failed": [], "wall_s": 0, "backend": getattr(job, "backend", "?"), "facet": job.facet,
                "shape": job.shape, "nprops": 0, "steps": 0, "vccs": 0, "solver_s": 0.0}


# ------------------------------------------------------------------------------------
# counterexample extraction and native replay against the real library
# ------------------------------------------------------------------------------------
def extract_inputs(job, prop_id):
    rc, out, wall = run_proc(job.cbmc_cmd(trace_prop=prop_id), max(job.timeout, 300))
    if rc == "timeout":
        return None
    try:
        start = out.index("[")
        data = json.loads(out[start:])
    except ValueError:
        return None
    vals = {}
    for e in data:
        for r in e.get("result", []) if isinstance(e, dict) else []:
            if r.get("status") != "FAILURE":
                continue
            for s in r.get("trace", []):
                if s.get("stepType") != "assignment":
                    continue
                lhs = s.get("lhs", "")
                if not lhs.startswith("IN_"):
                    continue
                v = s.get("value", {})
                m = re.match(r"IN_(\w+)\[(\d+)l?\]$", lhs)
                if m and "data" in v:
                    try:
                        vals.setdefault(m.group(1), {})[int(m.group(2))] = int(str(v["data"]).rstrip("ulUL"))
                    except ValueError:
                        pass
                elif re.match(r"IN_\w+$", lhs) and "data" in v and v.get("name") in ("integer",):
                    try:
                        vals[lhs[3:]] = int(v["data"].rstrip("ulUL"))
                    except ValueError:
                        pass
    return vals


def write_replay(job, prop, pid, desc, vals):
    os.makedirs(REPLAY_DIR, exist_ok=True)
    path = os.path.join(REPLAY_DIR, "%s-%s.replay" % (prop, re.sub(r"[^\w.-]", "_", job.name)))
    with open(path, "w") as f:
        f.write("#property=%s\n#job=%s\n#assert=%s %s\n" % (prop, job.name, pid, desc))
        f.write("#harness=%s\n#defines=%s\n" % (os.path.relpath(job.harness, VERIF), json.dumps(job.defines)))
        for k in sorted(vals or {}):
            v = vals[k]
            if isinstance(v, dict):
                n = max(v) + 1
                if all(0 <= x <= 255 for x in v.values()):
                    f.write("%s=%s\n" % (k, "".join("%02x" % v.get(i, 0) for i in range(n))))
                else:                               # wide array elements: one line per index
                    for i in sorted(v):
                        f.write("%s[%d]=%d\n" % (k, i, v[i]))
            else:
                f.write("%s=%d\n" % (k, v))
    return path


_native_cache = {}


def native_build(job):
    key = (job.harness, tuple(sorted(job.defines.items())), job.config, tuple(job.native_srcs))
    if key in _native_cache:
        return _native_cache[key]
    exe = os.path.join(scratch(), "native-%d" % len(_native_cache))
    objs = []
    for i, (src, funcs) in enumerate(job.instrument):
        # same substitution natively: the callees become weak so the harness's stubs win at link time
        o = "%s-w%d.o" % (exe, i)
        rc, out, _ = run_proc(["gcc", "-O0", "-fno-inline", "-w", "-std=gnu99", "-c"] + job.incflags() + job.dflags() + job.instrument_defs + [src, "-o", o], 120)
        wk = []
        for f in funcs:
            wk += ["-W", f]
        run_proc(["objcopy"] + wk + [o], 60)
        objs.append(o)
    for i, src in enumerate(getattr(job, "branch_srcs", [])):
        if src.endswith("libc.c") or src.endswith("perm_uf.c") or "abs_hash" in src:
            continue                                   # CBMC-only stand-ins
        o = "%s-b%d.o" % (exe, i)
        run_proc(["gcc", "-O0", "-fsanitize-coverage=trace-pc", "-w", "-std=gnu99", "-c"] + job.incflags() + job.dflags() + [src, "-o", o], 120)
        objs.append(o)
    cmd = ["gcc", "-O1", "-w", "-std=gnu99"] + job.incflags() + job.dflags() + \
          [job.harness] + NATIVE + job.native_srcs + objs + ["-o", exe]
    rc, out, _ = run_proc(cmd, 120)
    if rc != 0:
        exe = None
        sys.stderr.write("native build failed for %s:\n%s\n" % (job.name, out[-2000:]))
    _native_cache[key] = exe
    return exe


def native_run(exe, replay=None, seed=0, timeout=20):
    env = dict(os.environ, VERIF_SEED=str(seed))
    rc, out, _ = run_proc([exe] + ([replay] if replay else []), timeout, env=env)
    if rc == "timeout":
        return "HANG", out
    if rc == 0:
        return "OK", out
    if rc == 77:
        return "ASSUME", out
    if rc == 1 and "ASSERT-FAIL" in out:
        return "FAIL", out
    return "CRASH", out      # signal / abort: memory error in the real code


def confirm_probe(job, prop, res):
    pid, desc = res["failed"][0]
    vals = extract_inputs(job, pid) or {}
    n = vals.get("len")
    path = write_replay(job, prop, pid, desc, vals)
    info = {"replay": path, "assert": "%s %s" % (pid, desc), "reproduced": False, "how": ""}
    if not isinstance(n, int):
        info["how"] = "probe hit, but no length in the trace"
        return info
    harness, defines, nsrcs, macro = job.confirm
    cands = sorted(set([n, (n | 3), n + 1, n + 4]))
    for ln in cands:
        if ln > (1 << 26):
            continue
        d = dict(defines)
        d[macro] = ln
        j2 = Job(job.name + "-confirm", harness, d, [], nsrcs, config=job.config)
        exe = native_build(j2)
        if not exe:
            info["how"] = "native build of the confirmation harness failed"
            return info
        for seed in (1, 2, 3):
            st, out = native_run(exe, None, seed, timeout=300)
            if st in ("FAIL", "CRASH", "HANG"):
                with open(path, "a") as f:
                    f.write("#confirmed natively with %s=%d seed=%d: %s\n" % (macro, ln, seed, out.strip()[-200:]))
                info.update(reproduced=True, how="narrowing conversion loses bits at length %d (solver); native %s with %s=%d: %s %s"
                            % (n, os.path.basename(harness), macro, ln, st, out.strip()[-160:]))
                return info
    info["how"] = "conversion can lose bits at length %d, but the native round trip / conformance run did not fail" % n
    return info


def confirm(job, prop, res, neighbours=64):
    """Replay the solver's counterexample on the natively built real library."""
    if getattr(job, "probe", False):
        return confirm_probe(job, prop, res)
    failed = res["failed"] or res.get("unwind_failed", [])
    pid, desc = failed[0]
    vals = extract_inputs(job, pid)
    path = write_replay(job, prop, pid, desc, vals)
    exe = native_build(job)
    info = {"replay": path, "assert": "%s %s" % (pid, desc), "reproduced": False, "how": ""}
    if exe is None:
        info["how"] = "native replay build failed"
        return info
    st, out = native_run(exe, path, SEED)
    if st in ("FAIL", "CRASH", "HANG"):
        info.update(reproduced=True, how="solver counterexample reproduced natively: %s %s" % (st, out.strip()[-200:]))
        return info
    # the counterexample may rely on an interpretation of the uninterpreted permutation /
    # hash: try random data of the same public shape on the real build (DESIGN section 4)
    for s in range(1, neighbours + 1):
        st, out = native_run(exe, None, SEED * 1000 + s)
        if st in ("FAIL", "CRASH", "HANG"):
            with open(path, "a") as f:
                f.write("#not reproduced with the solver's data; reproduced with random data, VERIF_SEED=%d\n" % (SEED * 1000 + s))
                f.write("#seed=%d\n" % (SEED * 1000 + s))
            info.update(reproduced=True, how="reproduced natively with random data of the same shape (seed %d): %s %s"
                        % (SEED * 1000 + s, st, out.strip()[-200:]))
            return info
    info["how"] = "counterexample did not reproduce on the native build (%s)" % st
    return info


# ------------------------------------------------------------------------------------
# known findings
# ------------------------------------------------------------------------------------
def load_known():
    ks = []
    if os.path.exists(KNOWN):
        for line in open(KNOWN):
            line = line.strip()
            m = re.match(r"finding:\s+property=(\S+)\s+job=(\S+)\s+assert=/(.*?)/\s+(.*)$", line)
            if m:
                ks.append({"prop": m.group(1), "job": m.group(2), "assert": m.group(3), "what": m.group(4)})
    return ks


def match_known(known, prop, jobname, asserts):
    for k in known:
        if k["prop"] == prop and re.search(k["job"], jobname) and \
                all(re.search(k["assert"], "%s %s" % a) for a in asserts):
            return k
    return None


# ------------------------------------------------------------------------------------
# run a property
# ------------------------------------------------------------------------------------
def run_property(prop, tier, jobs, meta, only=None):
    t0 = time.time()
    if only:
        jobs = [j for j in jobs if only in j.name]
    names = [j.name for j in jobs]
    assert len(names) == len(set(names)), "duplicate job names: %r" % [n for n in names if names.count(n) > 1][:5]
    known = load_known()
    results = []
    byname = {j.name: j for j in jobs}
    # memory-hungry queries (thousands of unwindings: several GB each) run in a second phase with a quarter of the workers,
    # so that they do not push the machine into swapping / the OOM killer while 16 ordinary queries are in flight
    def is_heavy(j):
        return getattr(j, "heavy", False) or (j.kind == "cbmc" and getattr(j, "unwind", 0) >= 1000)

    ndone = 0
    for phase, workers in ((False, NJOBS), (True, max(2, NJOBS // 4))):
        order = sorted([j for j in jobs if is_heavy(j) == phase], key=lambda j: -getattr(j, "timeout", 0))
        if not order:
            continue
        with cf.ThreadPoolExecutor(max_workers=workers) as ex:
            futs = {ex.submit(run_job, j): j for j in order}
            for fut in cf.as_completed(futs):
                r = fut.result()
                results.append(r)
                ndone += 1
                if r["status"] != "PASS" or os.environ.get("VERIF_VERBOSE"):
                    sys.stderr.write("[%d/%d] %s %s %.1fs %s\n" % (ndone, len(jobs), r["status"], r["name"], r["wall_s"],
                                                                  r.get("why", "") or r["failed"][:2]))
    violations = []
    nconfirm = 0
    known_hits = []
    inconclusive = []
    def replay_order(r):
        # replay the smallest shapes first: with empty / short messages a counterexample is least likely to depend on
        # the interpretation of the uninterpreted permutation (e.g. SIV with an empty plaintext)
        sh = r.get("shape") or {}
        size = sum(int(v) for k, v in sh.items() if k in ("MLEN", "ADLEN", "N", "SIZE", "LEN", "OUTLEN", "REQ", "PLEN") and str(v).isdigit())
        # functional assertions of the harness first, CBMC's pointer-primitive complaints (NULL comparisons etc.) last
        functional = any(".assertion." in a[0] for a in (r.get("failed") or []))
        return (0 if functional else 1, size, r.get("wall_s", 0), r["name"])

    for r in sorted(results, key=replay_order):
        if r["status"] == "PASS":
            continue
        job = byname[r["name"]]
        if r["status"] in ("FAIL", "UNWIND"):
            asserts = r["failed"] or r.get("unwind_failed", [])
            k = match_known(known, prop, r["name"], asserts)
            if k:
                known_hits.append((k, r))
                r["status"] = "KNOWN"
                continue
            if job.kind == "cbmc":
                nrep = sum(1 for _, i in violations if i.get("replayed"))
                if nrep >= 2 or nconfirm >= 14:
                    # enough counterexamples replayed; the remaining failed queries are listed, not replayed
                    info = {"reproduced": nrep > 0, "replayed": False, "replay": violations[0][1]["replay"] if violations else "",
                            "assert": "%s %s" % asserts[0], "how": "query failed; not replayed (other counterexamples of this run were)"}
                else:
                    nconfirm += 1
                    info = confirm(job, prop, r)
                    info["replayed"] = True
            else:
                # E2 / structural queries: the tool re-confirms functional counterexamples itself on its concrete
                # interpreter + bit-serial reference ("reproduced"); frame / ABI / structural failures are
                # deterministic facts of the execution and need no data witness
                rep = r.get("reproduced")
                if rep is None and isinstance(r.get("counterexample"), dict):
                    rep = r["counterexample"].get("reproduced")
                if rep is None:
                    rep = "counterexample" not in r
                os.makedirs(REPLAY_DIR, exist_ok=True)
                path = os.path.join(REPLAY_DIR, "%s-%s.replay" % (prop, re.sub(r"[^\w.-]", "_", job.name)))
                with open(path, "w") as f:
                    f.write("#property=%s\n#job=%s\n#cmd=%s\n" % (prop, job.name, json.dumps(job.cmd)))
                    f.write("#result=%s\n" % json.dumps({k: r[k] for k in r if k in ("failed", "counterexample", "reproduced", "why")}))
                info = {"reproduced": bool(rep), "replay": path, "replayed": True,
                        "how": r.get("how", "") or ("counterexample %s" % json.dumps(r.get("counterexample", {}))),
                        "assert": str(asserts[:2])}
            r["confirm"] = info
            if info["reproduced"]:
                violations.append((r, info))
            else:
                inconclusive.append((r, info["how"]))
        else:
            inconclusive.append((r, r.get("why", r["status"])))
    wall = time.time() - t0
    write_evidence(prop, tier, results, meta, wall, violations, known_hits, inconclusive)
    seen = set()
    for k, r in known_hits:
        if id(k) not in seen:
            seen.add(id(k))
            print("KNOWN-FINDING: property=%s %s" % (prop, k["what"]))
    for r, info in violations:
        if info.get("replayed", True):
            print("VIOLATION property=%s replay=%s" % (prop, info["replay"]))
        print("  failed query %s: %s; %s" % (r["name"], info["assert"], info["how"]))
    for r, why in inconclusive:
        print("INCONCLUSIVE property=%s query=%s: %s" % (prop, r["name"], str(why)[:400]))
    npass = sum(1 for r in results if r["status"] == "PASS")
    print("%s tier=%s queries=%d pass=%d known=%d violations=%d inconclusive=%d wall=%.1fs" %
          (prop, tier, len(results), npass, len(known_hits), len(violations), len(inconclusive), wall))
    if violations:
        return 1
    if inconclusive:
        return 2
    return 0


def write_evidence(prop, tier, results, meta, wall, violations, known_hits, inconclusive):
    os.makedirs(EVID, exist_ok=True)
    shapes = set()
    for r in results:
        if r["status"] in ("PASS", "KNOWN"):
            shapes.add(json.dumps(r["shape"], sort_keys=True))
    backends = {}
    for r in results:
        backends[r["backend"]] = backends.get(r["backend"], 0) + 1
    facets = {}
    for r in results:
        f = facets.setdefault(r["facet"] or "main", {"queries": 0, "pass": 0, "solver_s": 0.0, "wall_s": 0.0})
        f["queries"] += 1
        f["pass"] += r["status"] == "PASS"
        f["solver_s"] = round(f["solver_s"] + r.get("solver_s", 0.0), 2)
        f["wall_s"] = round(f["wall_s"] + r.get("wall_s", 0.0), 2)
    samples = []
    for r in sorted(results, key=lambda r: r["name"])[:: max(1, len(results) // 6)][:8]:
        samples.append({"query": r["name"], "shape": r["shape"], "facet": r["facet"], "verdict": r["status"],
                        "assertions_checked": r.get("nprops", 0), "symex_steps": r.get("steps", 0),
                        "backend": r["backend"], "wall_s": r["wall_s"]})
    ev = {
        "property_id": prop,
        "tier": tier,
        "seed": SEED,
        "level": meta.get("level", "model_checking"),
        "coverage": {
            "evaluations": len(results),
            "distinct_nontrivial": len(shapes),
            "rule": meta.get("rule", "one solver query per public shape (lengths / counts / positions concrete, "
                                     "every data byte symbolic); distinct = distinct shape dictionaries whose "
                                     "query reached a verdict with a reachable witness; a query with an "
                                     "unreachable witness, a timeout or a solver error is not counted"),
            "samples": samples,
            "queries_discharged": sum(1 for r in results if r["status"] == "PASS"),
            "queries_failed": len(violations),
            "queries_known_finding": len(known_hits),
            "queries_inconclusive": len(inconclusive),
            "assertions_checked_total": sum(r.get("nprops", 0) for r in results),
            "symex_steps_total": sum(r.get("steps", 0) for r in results),
            "solver_s_total": round(sum(r.get("solver_s", 0.0) for r in results), 2),
            "symex_s_total": round(sum(r.get("symex_s", 0.0) for r in results), 2),
            "query_wall_s_total": round(sum(r.get("wall_s", 0.0) for r in results), 2),
            "backends": backends,
            "facets": facets,
            "functions_encoded": meta.get("functions", []),
            "translation_units": meta.get("units", []),
            "bounds": meta.get("bounds", ""),
            "outside_bounds": meta.get("outside", ""),
            "stubs": meta.get("stubs", []),
            "relies_on": meta.get("relies_on", []),
            "notes_null_pointer_arithmetic": sum(len(r.get("notes_null_arith", [])) for r in results),
            "witness": "every CBMC query carries a final reachability assertion that must come back "
                       "FAILURE; otherwise the query is reported VACUOUS (inconclusive)",
            "exhaustive": False,
        },
        "assumptions": meta.get("assumptions", []),
        "wall_s": round(wall, 2),
        "violations": len(violations),
    }
    for k, v in meta.get("coverage_extra", {}).items():
        ev["coverage"][k] = v
    if "coverage_fn" in meta:
        ev["coverage"].update(meta["coverage_fn"](results, violations))
    if violations:
        ev["coverage"]["violation_details"] = [
            {"query": r["name"], "assert": info["assert"], "replay": info["replay"], "how": info["how"]}
            for r, info in violations]
    if known_hits:
        ev["coverage"]["known_findings_hit"] = [{"query": r["name"], "what": k["what"]} for k, r in known_hits]
    if inconclusive:
        ev["coverage"]["inconclusive_details"] = [{"query": r["name"], "why": str(w)[:300]} for r, w in inconclusive]
    with open(os.path.join(EVID, prop + ".json"), "w") as f:
        json.dump(ev, f, indent=1)
