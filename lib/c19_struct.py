#!/usr/bin/env python3
"""C19 fact 1 (structural, regenerated from goto-cc output of every library TU on each run):
no symbol with static lifetime that is writable, no heap calls, imports within the allowed set.
Read off the compiler IR's symbol table / function calls; not a solver query (reported as such)."""
import json, os, re, subprocess, sys, tempfile, shutil
sys.path.insert(0, os.path.dirname(os.path.abspath(__file__)))
import driver as D

ALLOWED = {"memcpy", "memset", "explicit_bzero", "memset_s", "getrandom", "getentropy", "syscall", "open", "read", "close",
           "__errno_location"}
HEAP = {"malloc", "calloc", "realloc", "free", "alloca", "__builtin_alloca", "aligned_alloc", "posix_memalign", "strdup"}


def main():
    cfg = sys.argv[1] if len(sys.argv) > 1 else "default"
    tmp = tempfile.mkdtemp(prefix="tjverif-c19-")
    failed, facts, defined, called = [], 0, set(), {}
    statics = []
    try:
        srcs = []
        for root, _, files in os.walk(D.SRC):
            for f in sorted(files):
                if f.endswith(".c"):
                    srcs.append(os.path.join(root, f))
        inc = ["-DHAVE_CONFIG_H", "-I" + D.config_dir(cfg), "-I" + D.SRC]
        for i, src in enumerate(srcs):
            gb = os.path.join(tmp, "%d.gb" % i)
            p = subprocess.run(["goto-cc", "-c"] + inc + [src, "-o", gb], capture_output=True, text=True)
            if p.returncode != 0:
                failed.append(["compile", "goto-cc failed on %s: %s" % (src, p.stderr[-200:])])
                continue
            st = subprocess.run(["goto-instrument", "--show-symbol-table", "--json-ui", gb], capture_output=True, text=True).stdout
            try:
                js = json.loads(st[st.index("["):])
            except ValueError:
                failed.append(["symtab", "cannot read symbol table of " + src]); continue
            table = {}
            for e in js:
                if isinstance(e, dict) and "symbolTable" in e:
                    table = e["symbolTable"]
            rel = os.path.relpath(src, D.REPO)
            for name, sym in table.items():
                loc = sym.get("location", {}).get("file", "") if isinstance(sym.get("location"), dict) else ""
                if not loc or loc.startswith("<") or not os.path.abspath(os.path.join(sym["location"].get("workingDirectory", ""), loc)).startswith(D.REPO):
                    continue                      # CBMC built-ins and system headers
                if sym.get("isStaticLifetime") and not sym.get("isType") and sym.get("isLvalue") and not sym.get("isFunction", False) \
                        and sym.get("type", {}).get("id") != "code":
                    facts += 1
                    tconst = json.dumps(sym.get("type", {})).find('"#constant"') >= 0
                    statics.append({"unit": rel, "symbol": name, "const": tconst})
                    if not tconst:
                        failed.append(["static:" + name, "%s: writable object with static lifetime: %s" % (rel, name)])
            # functions defined / called
            out = subprocess.run(["goto-instrument", "--show-goto-functions", gb], capture_output=True, text=True).stdout
            cur = None
            for line in out.splitlines():
                m = re.match(r"^(\S+) /\* (\S+) \*/$", line)
                if m:
                    cur = m.group(1); defined.add(cur); continue
                for m in re.finditer(r"CALL (?:[^;]*?:= )?([A-Za-z_][\w$]*)\(", line):
                    called.setdefault(m.group(1), set()).add(rel)
        imports = sorted(n for n in called if n not in defined)
        for n in imports:
            facts += 1
            if n in HEAP:
                failed.append(["heap:" + n, "heap function %s called from %s" % (n, sorted(called[n]))])
            elif n not in ALLOWED and not n.startswith("__CPROVER") and not n.startswith("__builtin_"):
                failed.append(["import:" + n, "unexpected import %s from %s" % (n, sorted(called[n]))])
        res = {"status": "FAIL" if failed else "PASS", "failed": failed, "nprops": facts, "steps": len(srcs),
               "translation_units": len(srcs), "imports": imports, "static_objects": statics, "solver_s": 0.0,
               "reproduced": bool(failed), "replay": "", "how": "structural fact read from the goto-cc symbol table / call sites (regenerated this run)"}
        print("RESULT " + json.dumps(res))
    finally:
        shutil.rmtree(tmp, ignore_errors=True)


if __name__ == "__main__":
    main()
