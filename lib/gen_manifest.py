#!/usr/bin/env python3
"""Regenerates /verif/MANIFEST.json from the table below (run after changing the check list)."""
import json, os
V = os.path.dirname(os.path.dirname(os.path.abspath(__file__)))
BMC = "model_checking"
T = {
 "C01": (BMC, "6.C01", "CBMC bounded symbolic execution + z3: encrypt-then-decrypt on the real AEAD TUs, permutation as uninterpreted function",
         "For every (adlen, mlen) shape in the window and all four aliasing variants the solver shows decrypt(encrypt(m)) == m, result 0, clen == mlen+8 for EVERY key / nonce / AD / plaintext value; the shape dimension is enumerated, the data dimension is decided by the solver."),
 "C02": (BMC, "6.C02", "CBMC + z3: implementation output == independent bit-index specification model, permutation uninterpreted on both sides",
         "Per shape the solver shows ciphertext and tag equal the TinyJAMBU v2 model for every data value; with C05 (permutation == NLFSR) this composes to bit-exactness. The model is validated against the repo's KAT files on every setup."),
 "C03": (BMC, "6.C03", "CBMC + SAT/z3: check_tag on the real code over all 2^128 tag pairs; decrypt of arbitrary packets vs the specification's verdict; call contract with a recording check_tag",
         "Accept-iff is decided for every tag value in one query per plaintext length (no abstraction), for arbitrary packets per shape, and the call contract ties decrypt's verdict to check_tag with the specification tag; short inputs 0..7 exhaustively."),
 "C04": (BMC, "6.C04", "CBMC + SAT/z3: on rejection every byte of the clen-8 region is zero for arbitrary prior buffer contents; 6 cipher variants",
         "Zeroing is decided for all data values per shape, in place and out of place, and on check_tag alone up to length 40 (thorough 1000), with the call contract showing it receives the whole region."),
 "C05": ("translation_validation", "6.C05", "z3 cut-point equivalence of each assembly program (own ISA symbolic executor) and CBMC lemmas for the C backend against the specification NLFSR; generator byte-identity",
         "Each of the 27 backend programs (24 assembly files, Xtensa in both ABIs, 3 C files) is proved equal to the word-level chain for all states and keys per round count, with frame and ABI facts; the chain is tied to the bit-serial NLFSR by Lemma A."),
 "C06": (BMC, "6.C06", "CBMC pointer/bounds/overflow checks over exact-size heap objects for every public function, all data symbolic; E3: bounds and IR alignment of every access on clang -O2 IR with caller buffers of alignment 1",
         "Any read or write outside a caller-declared range, any modified input, any undefined shift / signed overflow is a failed solver query for every data value within the shape window."),
 "C07": (BMC, "6.C07 + 12.2(1)", "symbolic execution of clang's LLVM IR (own executor E3 + z3): secrets symbolic, every branch condition / address / length / shift amount must be proved secret-independent; CBMC self-composition over goto-instrument --branch traces as second opinion",
         "Control flow AND memory addresses are decided independent of all secret bytes per public shape on clang -O2 IR (thorough: -O0/-O2/-O3/vectorised); a violation comes with two witness secrets replayed on the IR. Machine code after instruction selection and gcc are outside."),
 "C08": (BMC, "6.C08", "CBMC + z3: SIV round trip, accept-iff for every (body, tag) pair, call contract, short inputs",
         "As C01 + C03 + C04 for the three SIV variants."),
 "C09": (BMC, "6.C09", "CBMC + z3: SIV output == two-pass model; keystream is a function of (key, nonce[0..3], tag) and provably not independent of the tag",
         "Conformance per shape for all data; structural nonce-misuse facts by direct and negated (must-be-refuted) queries."),
 "C10": (BMC, "6.C10", "CBMC + kissat: hash of an n-byte symbolic message == MDPH model, permutation uninterpreted",
         "Digest equality for every message of each length 0..70 (thorough to 1024), several chunkings, and the one-shot function at small sizes."),
 "C11": (BMC, "6.C11", "CBMC + kissat: inductive step of hash_update / finalize / init from an arbitrary state; model-vs-model fold lemma",
         "One update from ANY valid state equals the byte-wise fold, so every chunking of every message (unbounded histories) equals the one-shot model; init resets arbitrary objects; states are isolated."),
 "C12": (BMC, "6.C12", "CBMC + SAT: real hmac.c over an Ackermann-abstracted hash == RFC 2104 model over the same hash",
         "HMAC equality for all keys/messages per (keylen, msglen) shape incl. 63/64/65, every split of short messages, reinit."),
 "C13": (BMC, "6.C13", "CBMC + SAT: inductive step of hkdf_expand from an arbitrary state vs the RFC 5869 stream; wrapper call contract with all lengths symbolic",
         "Every partition of 0..8160 into expand calls follows from the step lemma; refusal beyond 8160 is decided for a fully symbolic length."),
 "C14": (BMC, "6.C14", "CBMC + z3: F with a symbolic 32-bit block number vs RFC 8018, whole function, outer loop contract up to 257 blocks",
         "PBKDF2 equality per (count, lengths) shape for all data; block numbering / truncation for > 255 blocks by the loop contract."),
 "C15": (BMC, "6.C15", "CBMC + z3: one PRNG operation from an arbitrary (V, C) state == SP 800-90A Hash_DRBG model incl. the 256-bit add and the entropy-callback log",
         "Each operation is a function of (state, inputs, delivered entropy) equal to the model for all values; induction over operations gives every call history."),
 "C16": (BMC, "6.C16", "CBMC + z3: inductive invariant over symbolic counter / limit / ghost emitted-byte count",
         "The reseed-limit bound is an inductive invariant of every operation for ALL counter and limit values, covering every interleaving."),
 "C17": (BMC, "6.C17", "CBMC + z3: seeding status iff full delivery, short deliveries still influence the state (negated-dependence), NULL callback == plain init",
         "Decided for deliveries of 0, 1, 31, 32 bytes and all data; the NULL-callback defect found by this check is fixed in /repo (known-findings.txt)."),
 "C18": ("fault_enumeration", "6.C18", "CBMC + SAT over a SYMBOLIC fault script of the OS entropy call (the solver enumerates the faults), 4 build variants",
         "All 4^8 (thorough 4^16) fault sequences over {success, EINTR, EAGAIN, permanent} are decided in one query per build variant."),
 "C19": (BMC, "6.C19", "structural facts from goto-cc symbol tables + CBMC history-independence queries with --nondet-static",
         "No writable static, no heap, closed import set (read from the compiler IR on every run); a call's result is shown independent of any earlier unrelated call for all data; commutation on disjoint objects follows by the stated meta-step."),
 "C20": (BMC, "6.C20", "CBMC + SAT: free functions on arbitrary state bytes, clean(off, n) exact range, three configurations of the primitive; E3: the clearing survives clang -O2/-O3 (wipe calls still executed, clean zeroes its range)",
         "Every byte zero after free for all prior contents; clean zeroes exactly [off, off+n) for n 0..70, offsets 0..7."),
}
checks = []
for pid in sorted(T):
    level, ref, tech, text = T[pid]
    checks.append({
        "property_id": pid,
        "quick_cmd": "./check %s --tier quick" % pid,
        "thorough_cmd": "./check %s --tier thorough" % pid,
        "evidence_file": "evidence/%s.json" % pid,
        "replay_cmd_template": "./check %s --replay {path}" % pid,
        "engine": {"C05": "E2+E1", "C07": "E3+E1", "C06": "E1+E3", "C20": "E1+E3"}.get(pid, "E1"),
        "level_claimed": {"category": level, "text": text + " Bounded: shapes outside the stated windows are not covered.", "design_ref": ref},
        "level_note": "Trusted: cbmc 6.11.0, z3 4.8.12 / kissat / MiniSat, the harness stubs and specification models listed in the evidence (models validated against the repo's KAT files), "
                      "Cut 1 (permutation as uninterpreted function, discharged by C05) and Cut 2 (hash as arbitrary function, discharged by C10/C11/C20) where used. gcc code generation is outside.",
        "technique": tech,
    })
m = {
 "version": 1,
 "setup_cmd": "./setup.sh",
 "hooks": {
  "guard": "TINYJAMBU_VERIF",
  "enable": "no source hooks are needed: harnesses link stand-ins, #include translation units, generate config.h variants and use goto-instrument; nothing in /repo is compiled with the guard",
  "baseline_off_cmd": "cd /repo && cmake -G Ninja -B _build >/dev/null && cmake --build _build >/dev/null && ctest --test-dir _build -j8 --timeout 900",
  "source_commits": [],
  "add_only": True
 },
 "engines": [
  {"name": "E1", "path": "lib/driver.py + harness/ + models/", "serves_properties": sorted(T), "kind_free_text": "CBMC harnesses over the real C translation units, solver back ends z3 / MiniSat / kissat, native replay of counterexamples"},
  {"name": "E2", "path": "e2/asmcheck.py, e2/gencheck.py", "serves_properties": ["C05"], "kind_free_text": "own symbolic executor for AVR / ARM / RISC-V / Xtensa assembly with z3 cut-point equivalence"},
  {"name": "E3", "path": "e3/ctcheck.py, e3/interp.py, e3/llir.py", "serves_properties": ["C07", "C06", "C20"], "kind_free_text": "own concolic executor for clang-14 LLVM IR with z3: secret-independence of control flow and addresses, access alignment, survival of wiping calls"},
 ],
 "checks": checks,
 "notes": "Repairs of genuine defects found by the checks are 'fix:' commits in /repo, recorded in known-findings.txt (C16, C17). Exit codes: 0 held, 1 VIOLATION (replayed), 2 INCONCLUSIVE (timeout / unreproduced / vacuous).",
 "not_applicable": []
}
json.dump(m, open(os.path.join(V, "MANIFEST.json"), "w"), indent=1)
print("wrote MANIFEST.json with", len(checks), "checks")
