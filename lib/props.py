"""Per-property query generators: PROPS[id](tier) -> (jobs, meta)."""
import json
import os
import re
import sys

import driver as D
from driver import Job, CmdJob, ProbeJob, S, LIBC, PERM_UF, SPEC, KDFSPEC, ABSHASH, CLEAN, HASH_REAL, HARN

KSS = (128, 192, 256)
PROPS = {}


def prop(pid):
    def deco(f):
        PROPS[pid] = f
        return f
    return deco


# ---- shape windows (DESIGN.md section 6) ------------------------------------------------
def aead_window(tier):
    q = [(a, m) for a in range(10) for m in range(10)]
    # shapes beyond the KAT limit of 32 bytes in the quick tier as well (block-wise fast paths, 64-byte strides)
    q += [(a, m) for a in (0, 3) for m in (33, 64, 65, 67, 130, 259)] + [(33, 2), (64, 0), (67, 5), (130, 1)]
    if tier == "quick":
        return q
    t = set((a, m) for a in range(18) for m in range(18))
    big = (31, 32, 33, 47, 63, 64, 65)
    t |= set((a, m) for a in big for m in big)
    t |= set((a, m) for a in (0, 3, 16) for m in (127, 128, 129, 130, 131, 255, 256, 257, 258, 259, 1023, 1024, 1025, 1027, 1028, 1031))
    t |= set((a, m) for a in (255, 256, 257, 1024, 1031) for m in (0, 2, 5))
    t |= set(q)
    t |= set([(0, 1031), (1031, 2)])
    return sorted(t)


def unwind_for(*lens):
    return max(lens) + 16


def aead_cbmc(ks, mode="aead"):
    return LIBC + PERM_UF + D.aead_srcs(ks, mode)


def aead_native(ks, mode="aead"):
    return D.aead_srcs(ks, mode) + D.perm_real(ks)


AEAD_STUBS = ["memcpy/memset: byte loops, n == 0 is a no-op for any pointers",
              "tinyjambu_permutation_{128,192,256}: uninterpreted functions of (state words, pre-inverted key "
              "words, rounds) writing only s[0..3] (Cut 1; the real permutation code is decided by C05)"]
AEAD_ASSUME = ["cbmc 6.11.0 front end / symex / flattening and z3 4.8.12 are trusted",
               "lengths outside the shape window are not covered",
               "malloc never fails in the harness (the library itself never allocates)",
               "CBMC's memory model is alignment-agnostic; the alignment facet is decided on clang IR (E3) where listed",
               "gcc's optimiser and machine code are outside the claim"]


def align_variants(jobs, pred, offsets=(1, 2, 3)):
    jobs = [j for j in jobs if not getattr(j, "probe", False)]
    """Re-issue selected queries with every caller buffer placed at byte offset k of its heap object (-DVERIF_ALIGN=k):
    CBMC puts object bases on word boundaries, so k is the pointer value modulo 4 and alignment-dependent paths
    ((uintptr_t)p & 3 fast paths, word-wide accesses guarded by an alignment test) are executed on that side."""
    import copy
    out = []
    for j in jobs:
        if j.kind == "cbmc" and pred(j):
            for k in offsets:
                j2 = copy.copy(j)
                j2.defines = dict(j.defines, VERIF_ALIGN=k)
                j2.shape = dict(j.shape, VERIF_ALIGN=k)
                j2.name = "%s-align%d" % (j.name, k)
                j2.facet = "alignment k=%d: %s" % (k, j.facet)
                out.append(j2)
    return out


def len_probes(mode):
    """Symbolic-length probes for narrow loop counters (lengths far beyond the shape windows), one per upper bound so
    that a hit comes with the smallest class of lengths and can be confirmed natively."""
    jobs = []
    for ks in KSS:
        for (tag, lmax) in (("1M", 1 << 20), ("64M", 1 << 26), ("4G", (1 << 32) - 1)):
            jobs.append(ProbeJob("lenprobe-%s-%d-upto%s" % (mode, ks, tag), "c01_len.c", {"API": 1, "KS": ks, "MODE": mode, "LENMAX": "%dull" % lmax},
                                 aead_cbmc(ks, mode),
                                 (os.path.join(HARN, "c01_rt.c"), {"KS": ks, "MODE": mode, "ADLEN": 3, "ALIAS": 0}, aead_native(ks, mode), "MLEN"),
                                 facet="length-truncation probe (symbolic length up to %s)" % tag))
    return jobs


def api_probes(tag, api, srcs, confirm, bounds=(("1M", 1 << 20), ("64M", 1 << 26), ("4G", (1 << 32) - 1))):
    return [ProbeJob("lenprobe-%s-upto%s" % (tag, b), "c01_len.c", {"API": api, "LENMAX": "%dull" % lmax}, srcs, confirm,
                     facet="length-truncation probe (symbolic length up to %s)" % b) for (b, lmax) in bounds]


# ---- C01 -------------------------------------------------------------------------------
def rt_window(tier):
    # the encrypt+decrypt round trip doubles the formula and gives no verdict within 15 min beyond ~1000 bytes on any back
    # end; shapes above 300 bytes are covered by the single-pass conformance queries of C02 / C09 and the arbitrary-packet
    # decrypt queries of C03 / C08 instead
    return [(a, m) for (a, m) in aead_window(tier) if a <= 300 and m <= 300]


@prop("C01")
def c01(tier):
    jobs = []
    for ks in KSS:
        for (a, m) in rt_window(tier):
            thin = (a in (0, 5) and m < 100) if tier == "quick" else (a <= 17 and m <= 17 and a % 3 == 0) or m > 100
            for alias in (0, 1, 2, 3):
                if alias and not thin:
                    continue
                jobs.append(Job("rt-%d-ad%d-m%d-alias%d" % (ks, a, m, alias), "c01_rt.c",
                                {"KS": ks, "MODE": "aead", "ADLEN": a, "MLEN": m, "ALIAS": alias},
                                aead_cbmc(ks), aead_native(ks), unwind=unwind_for(a, m, 32),
                                timeout=300 if tier == "quick" else 900, facet="roundtrip-alias%d" % alias))
    jobs += len_probes("aead")
    jobs += align_variants(jobs, lambda j: j.defines["ALIAS"] in (0, 3) and (j.defines["ADLEN"], j.defines["MLEN"]) in
                           ((0, 0), (5, 9), (4, 8), (3, 67), (0, 33), (7, 3)))
    meta = {
        "functions": ["tinyjambu_%d_aead_encrypt" % k for k in KSS] + ["tinyjambu_%d_aead_decrypt" % k for k in KSS] +
                     ["tinyjambu_setup_N", "tinyjambu_absorb_N", "tinyjambu_generate_tag_N", "tinyjambu_aead_check_tag"],
        "units": ["src/tinyjambu-{128,192,256}-aead.c", "src/backend/tinyjambu-aead-common-{128,192,256}.c",
                  "src/backend/tinyjambu-util.c", "src/backend/tinyjambu-util.h (macros)"],
        "bounds": "(adlen, mlen) window: quick {0..9}^2 + {0,3} x {33,64,65,67,130,259} + (33,2),(64,0),(67,5),(130,1); thorough {0..17}^2 + "
                  "{31,32,33,47,63,64,65}^2 + {0,3,16} x {127..131,255..259} + {255,256,257} x {0,2,5} (round trips above 300 bytes give no "
                  "verdict: see C02/C03 for 1023..1031); all three key sizes; aliasing variants: separate, "
                  "encrypt in place, decrypt in place, both; every key/nonce/ad/plaintext byte symbolic; loops "
                  "fully unrolled with --unwinding-assertions",
        "outside": "lengths outside the window; gcc code generation; alignment beyond the -DVERIF_ALIGN=1..3 variants of a cross-section of "
                   "shapes (every caller buffer at address k mod 4; CBMC object bases are word aligned, so pointer-value tests see k)",
        "stubs": AEAD_STUBS, "assumptions": AEAD_ASSUME, "relies_on": ["C05 (permutation is a function of state, key, rounds)"],
    }
    return jobs, meta


# ---- C02 -------------------------------------------------------------------------------
def conf_jobs(tier, mode):
    jobs = []
    for ks in KSS:
        for (a, m) in aead_window(tier):
            d = {"KS": ks, "MODE": mode, "ADLEN": a, "MLEN": m}
            if mode == "siv":
                d["MODE_SIV"] = None
            jobs.append(Job("conf-%s-%d-ad%d-m%d" % (mode, ks, a, m), "c02_conf.c", d,
                            aead_cbmc(ks, mode) + SPEC, aead_native(ks, mode) + SPEC,
                            unwind=unwind_for(a, m, 32), timeout=300 if tier == "quick" else 900,
                            facet="conformance-%s" % mode))
    return jobs


SPEC_NOTE = ("oracle: models/tj_spec.c, written from the TinyJAMBU v2 specification text in bit-index style "
             "(frame bits at state bits 36..38, data at 96..127, keystream from 64..95, partial length at 32..33) "
             "and validated on every setup run against the repository's six AEAD/SIV KAT files with the bit-serial NLFSR")


ALIGN_SHAPES = ((0, 0), (5, 9), (4, 8), (3, 67), (0, 33), (7, 3), (33, 2))


@prop("C02")
def c02(tier):
    jobs = conf_jobs(tier, "aead")
    jobs += align_variants(jobs, lambda j: (j.defines["ADLEN"], j.defines["MLEN"]) in ALIGN_SHAPES)
    meta = {
        "functions": ["tinyjambu_%d_aead_encrypt" % k for k in KSS] + ["tinyjambu_setup_N", "tinyjambu_absorb_N",
                                                                       "tinyjambu_generate_tag_N"],
        "units": ["src/tinyjambu-{128,192,256}-aead.c", "src/backend/tinyjambu-aead-common-{128,192,256}.c"],
        "bounds": "(adlen, mlen) window as C01; every key/nonce/ad/plaintext byte symbolic; the round count is an "
                  "argument of the uninterpreted permutation, so a wrong count is a different application",
        "outside": "lengths outside the window; gcc code generation",
        "stubs": AEAD_STUBS + [SPEC_NOTE], "assumptions": AEAD_ASSUME,
        "relies_on": ["C05: permutation(state, ~key words, r) == 128*r steps of the specification NLFSR (composition "
                      "gives bit-exactness w.r.t. the NLFSR)"],
    }
    return jobs, meta


# ---- C03 / C04 / C08 decrypt side ------------------------------------------------------------
def dec_shapes(tier):
    if tier == "quick":
        return [(a, m) for a in (0, 1, 5, 8) for m in range(10)] + [(3, 17), (0, 33)]
    t = set((a, m) for a in (0, 1, 2, 3, 4, 5, 8, 16, 17, 33) for m in range(18))
    t |= set((a, m) for a in (0, 33) for m in (31, 32, 33, 63, 64, 65, 127, 129, 255, 258))
    return sorted(t)


def dec_jobs(tier, mode, harness="c03_dec.c", tag="dec"):
    jobs = []
    for ks in KSS:
        for (a, m) in dec_shapes(tier):
            if mode == "siv" and a == 33 and m > 65:
                continue            # two passes over 33 + 255 bytes give no verdict in 15 min; (0, 255) and (0, 258) stay
            if harness == "c03_call.c" and not ((a in (0, 5) and m in (0, 1, 3, 4, 5, 8)) or (a, m) in ((3, 17), (0, 33)) or
                                                (tier != "quick" and (a, m) in ((33, 64), (0, 255), (17, 17), (1, 2), (2, 3)))):
                continue            # the call-contract variant has no data-dependent paths: a thinner cross-section
            for inplace in (0, 1):
                d = {"KS": ks, "MODE": mode, "ADLEN": a, "MLEN": m, "INPLACE": inplace}
                if mode == "siv":
                    d["MODE_SIV"] = None
                srcs = aead_cbmc(ks, mode)
                nat = aead_native(ks, mode)
                if harness == "c03_call.c":   # the harness supplies check_tag itself
                    srcs = [x for x in srcs if not x.endswith("tinyjambu-util.c")]
                    nat = [x for x in nat if not x.endswith("tinyjambu-util.c")]
                jobs.append(Job("%s-%s-%d-ad%d-m%d-ip%d" % (tag, mode, ks, a, m, inplace), harness, d,
                                srcs + SPEC, nat + SPEC, unwind=unwind_for(a, m, 32),
                                timeout=300 if tier == "quick" else 900, facet="%s-%s" % (tag, mode)))
    return jobs


def short_jobs(mode):
    jobs = []
    for ks in KSS:
        for clen in range(8):
            for a in (0, 5):
                jobs.append(Job("short-%s-%d-clen%d-ad%d" % (mode, ks, clen, a), "c03_short.c",
                                {"KS": ks, "MODE": mode, "CLEN": clen, "ADLEN": a},
                                aead_cbmc(ks, mode), aead_native(ks, mode), unwind=48, timeout=300,
                                facet="short-input-%s" % mode))
    return jobs


def checktag_jobs(tier):
    # lengths around every plausible counter / vector width (8-bit byte and word counters, 16-bit counters)
    ps = list(range(0, 41)) + [255, 256, 257, 1023, 1024, 1025]
    if tier != "quick":
        ps += [64, 1000, 1027, 4099]                 # 16385+ exhausts memory in symex; wider counters are left to the length probe
    jobs = [Job("checktag-p%d" % p, "c03_checktag.c", {"PLEN": p}, LIBC + S("backend/tinyjambu-util.c"),
                S("backend/tinyjambu-util.c"), backend="sat", unwind=p + 12, timeout=600 if p < 5000 else 3000,
                facet="check_tag-real-code") for p in ps]
    jobs += api_probes("checktag", 8, LIBC + S("backend/tinyjambu-util.c"),
                       (os.path.join(HARN, "c03_checktag.c"), {}, S("backend/tinyjambu-util.c"), "PLEN"))
    return jobs


def dec_align(jobs):
    return align_variants(jobs, lambda j: (j.name.startswith("checktag-p") and j.shape.get("PLEN") in (1, 3, 4, 5, 8, 9, 12, 17, 32, 33)) or
                          (j.name.startswith("dec-") and (j.defines["ADLEN"], j.defines["MLEN"]) in ((0, 4), (5, 8), (0, 5), (1, 9), (3, 17))))


@prop("C03")
def c03(tier):
    jobs = checktag_jobs(tier) + dec_jobs(tier, "aead") + dec_jobs(tier, "aead", "c03_call.c", "call") + short_jobs("aead")
    jobs += dec_align(jobs)
    meta = {
        "functions": ["tinyjambu_aead_check_tag (real code, all 2^128 tag pairs per query)"] +
                     ["tinyjambu_%d_aead_decrypt" % k for k in KSS],
        "units": ["src/backend/tinyjambu-util.c", "src/tinyjambu-{128,192,256}-aead.c",
                  "src/backend/tinyjambu-aead-common-{128,192,256}.c"],
        "bounds": "check_tag: plaintext_len 0..40, 255..257, 1023..1025 (thorough + 4099) plus a symbolic-length truncation probe, all tag pairs, all plaintext bytes; "
                  "decrypt: arbitrary (key, nonce, ad, body, tag) with tag = spec tag XOR arbitrary delta, shapes "
                  "ad in {0,1,5,8} x body 0..9 + (3,17),(0,33) (thorough: wider, up to 258), in place and separate; "
                  "call-contract variant with a recording check_tag; clen 0..7 exhaustively",
        "outside": "the 2^-64 coincidence bound is a probabilistic statement about the specification's MAC and is not "
                   "a solver statement; shapes outside the window",
        "stubs": AEAD_STUBS + [SPEC_NOTE], "assumptions": AEAD_ASSUME, "relies_on": ["C05", "C02 (same model)"],
    }
    return jobs, meta


@prop("C04")
def c04(tier):
    jobs = checktag_jobs(tier)
    for mode in ("aead", "siv"):
        jobs += dec_jobs(tier, mode)
        jobs += dec_jobs(tier, mode, "c03_call.c", "call")
    jobs += dec_align(jobs)
    meta = {
        "functions": ["tinyjambu_aead_check_tag (real code)"] + ["tinyjambu_%d_%s_decrypt" % (k, mo) for k in KSS for mo in ("aead", "siv")],
        "units": ["src/backend/tinyjambu-util.c", "src/tinyjambu-{128,192,256}-{aead,siv}.c",
                  "src/backend/tinyjambu-aead-common-{128,192,256}.c"],
        "bounds": "as C03; rejection => every byte of the clen-8 region is zero, acceptance => the specification's "
                  "plaintext; arbitrary prior buffer contents; in place and separate; 6 cipher variants; check_tag alone "
                  "with plaintext_len 0..40, 255..257, 1023..1025 (thorough up to 4099, plus the symbolic-length probe) shows every byte is ANDed with the verdict mask",
        "outside": "message lengths outside the window for the end-to-end queries (the clearing loop itself is decided "
                   "for lengths up to 1000 on check_tag alone, and the call contract shows it receives the full region)",
        "stubs": AEAD_STUBS + [SPEC_NOTE], "assumptions": AEAD_ASSUME, "relies_on": ["C05"],
    }
    return jobs, meta


# ---- C08 -------------------------------------------------------------------------------
@prop("C08")
def c08(tier):
    jobs = []
    for ks in KSS:
        for (a, m) in rt_window(tier):
            thin = (a in (0, 5) and m < 10) if tier == "quick" else (a <= 17 and m <= 17 and a % 3 == 0) or m > 100
            if tier == "quick" and a not in (0, 3, 5, 33, 64, 67, 130):
                continue
            for alias in (0, 1, 2, 3):
                if alias and not thin:
                    continue
                jobs.append(Job("rt-siv-%d-ad%d-m%d-alias%d" % (ks, a, m, alias), "c01_rt.c",
                                {"KS": ks, "MODE": "siv", "ADLEN": a, "MLEN": m, "ALIAS": alias},
                                aead_cbmc(ks, "siv"), aead_native(ks, "siv"), unwind=unwind_for(a, m, 32),
                                timeout=300 if tier == "quick" else 900, facet="roundtrip-alias%d" % alias))
    jobs += dec_jobs(tier, "siv") + dec_jobs(tier, "siv", "c03_call.c", "call") + short_jobs("siv")
    jobs += [j for j in checktag_jobs(tier) if j.shape.get("PLEN", 0) <= 40]     # the shared verdict function, real code
    jobs += len_probes("siv")
    jobs += dec_align(jobs)
    meta = {
        "functions": ["tinyjambu_%d_siv_encrypt" % k for k in KSS] + ["tinyjambu_%d_siv_decrypt" % k for k in KSS] +
                     ["tinyjambu_aead_check_tag"],
        "units": ["src/tinyjambu-{128,192,256}-siv.c", "src/backend/tinyjambu-aead-common-{128,192,256}.c",
                  "src/backend/tinyjambu-util.c"],
        "bounds": "round trip: (adlen, mlen) window of C01 (quick: minus the a>5,m>5 corner), 4 aliasing variants; "
                  "accept-iff: every (body, tag) pair expressed as honest packet XOR arbitrary (dc, dt); call contract; "
                  "clen 0..7",
        "outside": "shapes outside the window; probabilistic collision bound",
        "stubs": AEAD_STUBS + [SPEC_NOTE], "assumptions": AEAD_ASSUME, "relies_on": ["C05", "C03(a) check_tag on real code"],
    }
    return jobs, meta


# ---- C09 -------------------------------------------------------------------------------
@prop("C09")
def c09(tier):
    jobs = conf_jobs(tier, "siv")
    if tier == "quick":
        jobs = [j for j in jobs if j.defines["ADLEN"] in (0, 1, 2, 3, 4, 5, 8, 33, 64, 67, 130)]
    jobs += align_variants(jobs, lambda j: (j.defines["ADLEN"], j.defines["MLEN"]) in ALIGN_SHAPES)
    shapes = [(a, m) for a in (0, 3) for m in range(1, 10)] if tier == "quick" else \
             [(a, m) for a in (0, 3, 8) for m in list(range(1, 18)) + [31, 32, 33, 64, 65, 130]]
    for ks in KSS:
        for (a, m) in shapes:
            for v in (0, 1, 2):
                if v == 1 and m > 65:
                    continue            # the assumed-equal-tags query needs the SAT back end, which gives no verdict at 130 bytes
                jobs.append(Job("ks%d-%d-ad%d-m%d" % (v, ks, a, m), "c09_ks.c",
                                {"KS": ks, "ADLEN": a, "MLEN": m, "VARIANT": v},
                                aead_cbmc(ks, "siv"), aead_native(ks, "siv"), unwind=unwind_for(a, m, 32), backend="sat" if v == 1 else "z3",
                                timeout=300 if tier == "quick" else 900,
                                facet=("determinism", "keystream-function-of-key-nonce4-tag", "keystream-depends-on-tag")[v]))
    meta = {
        "functions": ["tinyjambu_%d_siv_encrypt" % k for k in KSS] + ["tinyjambu_setup_N", "tinyjambu_absorb_N",
                                                                      "tinyjambu_generate_tag_N"],
        "units": ["src/tinyjambu-{128,192,256}-siv.c", "src/backend/tinyjambu-aead-common-{128,192,256}.c"],
        "bounds": "conformance: (adlen, mlen) window of C01; structural facets: ad in {0,3}, mlen 1..9 (thorough: "
                  "ad in {0,3,8}, mlen 1..17,31,32,33,64,65,130); everything else symbolic",
        "outside": "'unrelated bodies beyond chance' is a statistical statement about the permutation and is not a solver "
                   "statement; decided instead: the keystream is a function of (key, nonce[0..3], tag) only, and it is "
                   "not independent of the tag for any tail class",
        "stubs": AEAD_STUBS + [SPEC_NOTE + "; SIV passes per tools/sivref/README.md"], "assumptions": AEAD_ASSUME,
        "relies_on": ["C05"],
    }
    return jobs, meta


# ---- C10 / C11 ---------------------------------------------------------------------------
HASH_CBMC = LIBC + PERM_UF + SPEC + CLEAN
HASH_NATIVE = SPEC + CLEAN + D.perm_real(256)
HASH_STUBS = ["memcpy/memset/explicit_bzero: byte loops",
              "tinyjambu_permutation_256: uninterpreted function (Cut 1)",
              "oracle: models/tj_spec.c spec_hash, written from tools/hashref/README.md, validated on every setup run "
              "against test/kat/TinyJAMBU-HASH.txt with the bit-serial NLFSR"]


def hash_job(name, defines, facet, tier, oneshot=False, n=0):
    return Job(name, "c10_hash.c", defines, HASH_CBMC + HASH_REAL, HASH_NATIVE + HASH_REAL, backend="kissat",
               unwind=max(n + 12, 60), timeout=600 if tier == "quick" else 3000, facet=facet)


@prop("C10")
def c10(tier):
    jobs = []
    ns = list(range(0, 71)) if tier == "quick" else list(range(0, 71)) + [127, 128, 129, 255, 256, 257, 511, 512, 513, 1024]
    for n in ns:
        jobs.append(hash_job("hash-n%d" % n, {"N": n, "C1": 0, "C2": 0}, "conformance-single-update", tier, n=n))
    splits = [(5, 1, 2), (16, 16, 0), (17, 1, 16), (33, 7, 9), (48, 16, 16), (70, 15, 17), (40, 0, 33), (31, 30, 1)]
    if tier != "quick":
        splits += [(130, 1, 127), (200, 5, 20), (257, 128, 1)]
    for (n, c1, c2) in splits:
        jobs.append(hash_job("hash-n%d-split%d-%d" % (n, c1, c2), {"N": n, "C1": c1, "C2": c2}, "conformance-3-updates", tier, n=n))
    for n in (0, 1, 15, 16, 17, 33):
        jobs.append(hash_job("hash-oneshot-n%d" % n, {"N": n, "C1": 0, "C2": 0, "ONESHOT": None}, "one-shot tinyjambu_hash", tier, n=n))
    for (n, pre) in ((0, 5), (17, 1), (33, 15), (20, 16), (5, 37)):
        jobs.append(hash_job("hash-reinit-n%d-pre%d" % (n, pre), {"N": n, "C1": n // 2, "C2": 0, "REINIT_PRE": pre}, "reinit after an abandoned partial message", tier, n=n + pre))
    jobs += api_probes("hash", 2, LIBC + PERM_UF + HASH_REAL + CLEAN,
                       (os.path.join(HARN, "c10_hash.c"), {"C1": 0, "C2": 0}, HASH_NATIVE + HASH_REAL, "N"))
    jobs += align_variants(jobs, lambda j: j.name in ("hash-n16", "hash-n17", "hash-n33", "hash-n48", "hash-n70", "hash-n5-split1-2", "hash-n33-split7-9",
                                                      "hash-n70-split15-17", "hash-oneshot-n17", "hash-oneshot-n33"))
    meta = {
        "functions": ["tinyjambu_hash_init", "tinyjambu_hash_update", "tinyjambu_hash_finalize", "tinyjambu_hash_compress (static)",
                      "tinyjambu_hash (one-shot, n <= 33)", "tinyjambu_hash_free", "tinyjambu_clean"],
        "units": ["src/tinyjambu-hash.c", "src/backend/tinyjambu-clean.c"],
        "bounds": "message length 0..70 (thorough + 127..129, 255..257, 511..513, 1024), every byte symbolic; 3-way splits; "
                  "one-shot function for n in {0,1,15,16,17,33}; back end: CBMC propositional encoding + kissat",
        "outside": "longer messages in a single query (C11's inductive step extends the result to any length and chunking); "
                   "alignment and optimisation level (CBMC has no alignment; clang IR facet listed where implemented); gcc",
        "stubs": HASH_STUBS, "assumptions": AEAD_ASSUME, "relies_on": ["C05 (permutation-256 at 20 rounds)"],
    }
    return jobs, meta


@prop("C11")
def c11(tier):
    jobs = []
    step_src = (HASH_CBMC, HASH_NATIVE)
    lens = list(range(0, 41)) if tier == "quick" else list(range(0, 101))
    for posn in range(16):
        for ln in lens:
            if tier == "quick" and not (ln <= 18 or ln in (31, 32, 33, 40) or posn in (0, 1, 15)):
                continue
            jobs.append(Job("step-posn%d-len%d" % (posn, ln), "c11_step.c", {"VARIANT": 1, "POSN": posn, "LEN": ln},
                            step_src[0], step_src[1], backend="kissat", unwind=ln + 40, timeout=600,
                            facet="step-lemma update"))
        jobs.append(Job("finalize-posn%d" % posn, "c11_step.c", {"VARIANT": 2, "POSN": posn}, step_src[0], step_src[1],
                        backend="kissat", unwind=40, timeout=600, facet="finalize-lemma"))
        jobs.append(Job("null-update-posn%d" % posn, "c11_step.c", {"VARIANT": 6, "POSN": posn}, step_src[0], step_src[1],
                        backend="kissat", unwind=60, timeout=600, facet="update(NULL,0) identity, free(NULL) no-op"))
    jobs += align_variants(jobs, lambda j: j.name.startswith("step-posn") and j.defines["POSN"] in (0, 1, 15) and j.defines["LEN"] in (16, 17, 33, 40))
    jobs.append(Job("init-arbitrary", "c11_step.c", {"VARIANT": 3}, step_src[0], step_src[1], backend="kissat",
                    unwind=40, facet="init-lemma"))
    jobs.append(Job("reinit-arbitrary", "c11_step.c", {"VARIANT": 3, "REINIT": None}, step_src[0], step_src[1],
                    backend="kissat", unwind=40, facet="init-lemma"))
    for op in range(5):
        for posn in (0, 9):
            jobs.append(Job("isolate-op%d-posn%d" % (op, posn), "c11_step.c", {"VARIANT": 4, "OP": op, "POSN": posn, "LEN": 21},
                            step_src[0], step_src[1], backend="kissat", unwind=80, facet="isolation of state objects"))
    for ln in (list(range(0, 71, 1)) if tier != "quick" else list(range(0, 71, 3)) + [16, 17, 31, 32, 64, 65]):
        jobs.append(Job("fold-model-len%d" % ln, "c11_step.c", {"VARIANT": 5, "LEN": ln}, step_src[0], step_src[1],
                        backend="kissat", unwind=ln + 40, facet="model-vs-model fold == block form"))
    # one-shot == streamed, end to end, small sizes (the one-shot function is also compared with the model in C10)
    for (n, c1, c2) in [(0, 0, 0), (1, 1, 0), (17, 16, 1), (33, 5, 11), (20, 0, 20)]:
        jobs.append(hash_job("stream-n%d-split%d-%d" % (n, c1, c2), {"N": n, "C1": c1, "C2": c2}, "end-to-end streamed == model", tier, n=n))
    for n in (0, 1, 17, 33):
        jobs.append(hash_job("oneshot-n%d" % n, {"N": n, "C1": 0, "C2": 0, "ONESHOT": None}, "end-to-end one-shot == model", tier, n=n))
    meta = {
        "functions": ["tinyjambu_hash_update (one step from an arbitrary valid state)", "tinyjambu_hash_finalize", "tinyjambu_hash_init",
                      "tinyjambu_hash_reinit", "tinyjambu_hash_free", "tinyjambu_hash", "tinyjambu_hash_compress (static)"],
        "units": ["src/tinyjambu-hash.c (#included by the harness to reach the private state layout)", "src/backend/tinyjambu-clean.c"],
        "bounds": "inductive step: every pre-state (L, R, 16 block bytes symbolic; posn in 0..15) x one update of length "
                  "0..40 (quick: a cross-section; thorough: 0..100 in full); finalize from every state; init/reinit on an arbitrary "
                  "object; by induction every sequence of updates of those lengths followed by finalize equals the model on the "
                  "concatenation (all 2^(n-1) compositions, unbounded histories). The state object is exactly the 52-byte private "
                  "struct so any dependence on the 4 padding bytes is a bounds failure.",
        "outside": "a single update call longer than the step bound; the meta-step (induction over the sequence) is stated, not "
                   "machine-checked; concurrent interleavings are C19",
        "stubs": HASH_STUBS, "assumptions": AEAD_ASSUME + ["little-endian host (the harness builds states with typed word stores)"],
        "relies_on": ["C05"],
    }
    return jobs, meta


# ---- Cut 2 layers: C12 HMAC, C13 HKDF, C14 PBKDF2 --------------------------------------------
CUT2_CBMC = LIBC + ABSHASH + KDFSPEC + CLEAN
CUT2_NATIVE = KDFSPEC + SPEC + CLEAN + HASH_REAL + D.perm_real(256)
HMAC_SRC = S("tinyjambu-hmac.c")
CUT2_STUBS = ["memcpy/memset/explicit_bzero: byte loops",
              "hash API (tinyjambu_hash*): Cut 2 - an arbitrary function H of the absorbed bytes, Ackermann-encoded in "
              "harness/stubs/abs_hash.c; contract = C10 + C11 + C20, decided on the real tinyjambu-hash.c",
              "oracles: models/kdf_spec.c written from RFC 2104 / RFC 5869 / RFC 8018 / SP 800-90A over the same H; natively "
              "(replay, setup validation) H is the MDPH model with the bit-serial NLFSR"]


def cut2(name, harness, defines, extra_srcs, facet, tier, unwind=340, timeout=None, instrument=(), backend="sat"):
    d = dict(defines)
    d["VERIF_CUT2"] = None
    return Job(name, harness, d, CUT2_CBMC + extra_srcs, CUT2_NATIVE + extra_srcs, backend=backend, unwind=unwind,
               timeout=timeout or (600 if tier == "quick" else 3000), facet=facet, instrument=instrument)


@prop("C12")
def c12(tier):
    jobs = []
    keylens = [0, 1, 31, 32, 33, 63, 64, 65, 66, 100, 200]
    if tier == "quick":
        pairs = [(k, m) for k, m in zip(keylens, [0, 5, 20, 1, 33, 7, 64, 3, 16, 2, 9])] + [(32, m) for m in (0, 2, 17, 32)] + [(65, 20), (64, 0)]
    else:
        pairs = [(k, m) for k in keylens for m in (0, 1, 7, 16, 20, 32, 33, 64)]
    for (k, m) in pairs:
        jobs.append(cut2("hmac-oneshot-k%d-m%d" % (k, m), "c12_hmac.c", {"VARIANT": 0, "KEYLEN": k, "MSGLEN": m}, HMAC_SRC, "one-shot", tier))
    splits = [(32, 9, c1) for c1 in range(0, 10)] + [(65, 5, 2), (0, 4, 1), (64, 33, 16), (100, 3, 3), (63, 20, 0)]
    if tier != "quick":
        splits += [(k, 17, c1) for k in (0, 33, 64, 65, 200) for c1 in (0, 1, 8, 16, 17)]
    for (k, m, c1) in splits:
        jobs.append(cut2("hmac-stream-k%d-m%d-c%d" % (k, m, c1), "c12_hmac.c", {"VARIANT": 1, "KEYLEN": k, "MSGLEN": m, "C1": c1}, HMAC_SRC, "init/update/update/finalize", tier))
    for (k, m, pre) in [(32, 5, 3), (65, 2, 20), (0, 0, 1), (64, 17, 64)] + ([(200, 8, 5), (33, 33, 33)] if tier != "quick" else []):
        jobs.append(cut2("hmac-reinit-k%d-m%d-pre%d" % (k, m, pre), "c12_hmac.c", {"VARIANT": 2, "KEYLEN": k, "MSGLEN": m, "PRE": pre, "C1": m // 2}, HMAC_SRC, "reinit after a partial message", tier))
    jobs += api_probes("hmac", 3, LIBC + ABSFOLD + CLEAN + HMAC_SRC,
                       (os.path.join(HARN, "c12_hmac.c"), {"VARIANT": 0, "KEYLEN": 5, "VERIF_CUT2": None}, CUT2_NATIVE + HMAC_SRC, "MSGLEN"),
                       bounds=(("1M", 1 << 20), ("4G", (1 << 32) - 1)))
    for (k, m) in ((32, 5), (64, 9), (65, 3), (100, 20)):
        jobs.append(cut2("hmac-out-over-key-oneshot-k%d-m%d" % (k, m), "c12_hmac.c", {"VARIANT": 3, "KEYLEN": k, "MSGLEN": m}, HMAC_SRC, "MAC written over the key buffer (out == key)", tier))
        jobs.append(cut2("hmac-out-over-key-stream-k%d-m%d" % (k, m), "c12_hmac.c", {"VARIANT": 4, "KEYLEN": k, "MSGLEN": m}, HMAC_SRC, "MAC written over the key buffer (out == key)", tier))
    jobs += align_variants(jobs, lambda j: j.name in ("hmac-oneshot-k32-m17", "hmac-oneshot-k65-m20", "hmac-stream-k64-m33-c16", "hmac-oneshot-k200-m9"), offsets=(1, 3))
    meta = {
        "functions": ["tinyjambu_hmac", "tinyjambu_hmac_init", "tinyjambu_hmac_reinit", "tinyjambu_hmac_update", "tinyjambu_hmac_finalize",
                      "tinyjambu_hmac_free", "tinyjambu_hmac_set_key (static)"],
        "units": ["src/tinyjambu-hmac.c", "src/backend/tinyjambu-clean.c"],
        "bounds": "key lengths {0,1,31,32,33,63,64,65,66,100,200} x message lengths (quick: a diagonal; thorough: {0,1,7,16,20,32,33,64}); "
                  "every split point of a 9-byte message, more splits in thorough; reinit after a partial message; NULL key for length 0; "
                  "all key / message bytes symbolic, H arbitrary",
        "outside": "other (keylen, msglen) pairs (the code has no length-dependent path besides keylen <= 64 / > 64 and zero lengths); "
                   "messages longer than 64 bytes in one query",
        "stubs": CUT2_STUBS, "assumptions": AEAD_ASSUME, "relies_on": ["C10, C11, C20 (hash contract) for messages up to 64 + 64 bytes"],
    }
    return jobs, meta


@prop("C13")
def c13(tier):
    jobs = []
    src = HMAC_SRC
    # extract + three expands == RFC stream (private-struct-sized state object)
    combos = [(0, 0, 0, 16, 0, 0), (1, 0, 0, 16, 16, 1), (5, 30, 40, 16, 16, 1), (32, 32, 1, 0, 0, 0), (31, 2, 33, 32, 65, 5), (0, 64, 0, 1, 1, 16)]
    if tier != "quick":
        combos += [(33, 33, 34, 65, 32, 32), (100, 0, 1, 16, 0, 3), (1, 1, 1, 0, 65, 0), (64, 65, 0, 32, 1, 65)]
    for (e1, e2, e3, k, sa, i) in combos:
        jobs.append(cut2("hkdf-stream-e%d-%d-%d-k%d-s%d-i%d" % (e1, e2, e3, k, sa, i), "c13_hkdf.c",
                         {"VARIANT": 1, "E1": e1, "E2": e2, "E3": e3, "KEYLEN": k, "SALTLEN": sa, "INFOLEN": i}, src,
                         "extract + expand x3 == RFC 5869 stream", tier))
    # inductive step of expand
    counters = [1, 2, 100, 254, 255, 0] if tier == "quick" else [1, 2, 3, 100, 128, 253, 254, 255, 0]
    posns = [0, 7, 31, 32] if tier == "quick" else [0, 1, 7, 16, 31, 32]
    reqs = [0, 1, 33, 70] if tier == "quick" else [0, 1, 31, 32, 33, 64, 65, 70, 97]
    for c in counters:
        for p in posns:
            if c == 1 and p != 32:
                continue                       # invariant: counter == 1 => posn == 32 (fresh from extract)
            for rq in reqs:
                jobs.append(cut2("hkdf-step-n%d-posn%d-req%d" % (c, p, rq), "c13_hkdf.c",
                                 {"VARIANT": 2, "COUNTER": c, "POSN": p, "REQ": rq, "INFOLEN": 3 if (rq + p) % 2 else 0}, src,
                                 "inductive step of hkdf_expand", tier))
    # requests of 256 bytes and more (8-bit length arithmetic), fold encoding + z3
    for (c, p, rq) in ((2, 7, 256), (100, 31, 260), (254, 22, 257)) + (((2, 0, 512),) if tier != "quick" else ()):
        jobs.append(cut2fold("hkdf-step-n%d-posn%d-req%d" % (c, p, rq), "c13_hkdf.c", {"VARIANT": 2, "COUNTER": c, "POSN": p, "REQ": rq, "INFOLEN": 3}, src,
                             "inductive step of hkdf_expand, long request", tier, unwind=rq + 80, timeout=1500))
    jobs += api_probes("hkdf", 4, LIBC + ABSFOLD + CLEAN + HMAC_SRC + S("tinyjambu-hkdf.c"),
                       (os.path.join(HARN, "c13_hkdf.c"), {"VARIANT": 1, "E2": 0, "E3": 0, "KEYLEN": 8, "SALTLEN": 8, "INFOLEN": 4, "VERIF_CUT2": None},
                        CUT2_NATIVE + HMAC_SRC, "E1"), bounds=(("8160", 8160),))
    for k in (0, 16, 65):
        jobs.append(cut2("hkdf-emptysalt-k%d" % k, "c13_hkdf.c", {"VARIANT": 4, "KEYLEN": k}, src, "empty salt == 32 zero bytes", tier))
    jobs.append(cut2("hkdf-wrapper-contract", "c13_hkdf.c", {"VARIANT": 5}, [x for x in []], "one-shot wrapper call contract (all lengths symbolic)", tier,
                     instrument=[(S("tinyjambu-hkdf.c")[0], ["tinyjambu_hkdf_extract", "tinyjambu_hkdf_expand"])]))
    # the contract query supplies tinyjambu_clean itself
    j = jobs[-1]
    j.cbmc_srcs = [x for x in j.cbmc_srcs if not x.endswith("tinyjambu-clean.c") and not x.endswith("abs_hash.c") and not x.endswith("kdf_spec.c")]
    j.native_srcs = HMAC_SRC + HASH_REAL + D.perm_real(256)    # referenced by the (weakened, never executed) callee bodies
    meta = {
        "functions": ["tinyjambu_hkdf (wrapper: real goto program, callees replaced by recording stubs)", "tinyjambu_hkdf_extract",
                      "tinyjambu_hkdf_expand (one step from an arbitrary state)", "tinyjambu_hmac_* (real code)"],
        "units": ["src/tinyjambu-hkdf.c", "src/tinyjambu-hmac.c", "src/backend/tinyjambu-clean.c"],
        "bounds": "inductive step: prk, T(n-1) symbolic; counter in {1,2,100,254,255,0} (thorough + 3,128,253); posn in {0,7,31,32} "
                  "(thorough + 1,16); request in {0,1,33,70} (thorough up to 97): output == continuation of the RFC stream, zero-filled "
                  "past byte 8160 with -1; by induction every partition of 0..8160 into expand calls of those sizes. Stream queries: "
                  "extract + 3 expands for 6 (10) length tuples. Wrapper: outlen, keylen, saltlen, infolen fully symbolic 64-bit.",
        "outside": "a single expand request longer than 97 bytes; counter values other than those listed (the code treats 2..254 "
                   "uniformly: the only comparisons are == 0 and != 1); info longer than 65 bytes",
        "stubs": CUT2_STUBS + ["wrapper contract: goto-instrument --remove-function-body on extract/expand, harness stubs record the arguments"],
        "assumptions": AEAD_ASSUME + ["the one-shot wrapper's uninitialised local state cannot be constant-propagated by CBMC's symex "
                                      "(byte-punned fields over a nondet base); it is therefore decided as wrapper contract + stream lemma"],
        "relies_on": ["C12 at key length 32", "C10/C11/C20 hash contract"],
    }
    return jobs, meta


ABSFOLD = [os.path.join(HARN, "stubs/abs_hash_fold.c")]
FOLD_STUB = ("hash API (tinyjambu_hash*): Cut 2, fold encoding - state' = A(state, byte), digest = F(state) with A, F uninterpreted "
             "functions over the full 56-byte state (harness/stubs/abs_hash_fold.c); the real hash is an instance of this scheme "
             "by C11 (byte-wise fold, any chunking), C10 and C20")


def cut2fold(name, harness, defines, extra_srcs, facet, tier, unwind=340, timeout=None, instrument=()):
    d = dict(defines)
    d["VERIF_CUT2"] = None
    return Job(name, harness, d, LIBC + ABSFOLD + KDFSPEC + CLEAN + extra_srcs, CUT2_NATIVE + extra_srcs, backend="z3",
               unwind=unwind, timeout=timeout or (900 if tier == "quick" else 3000), facet=facet, instrument=instrument)


@prop("C14")
def c14(tier):
    jobs = []
    if tier == "quick":
        fshapes = [(c, pw, sa) for c in (0, 1) for (pw, sa) in ((0, 0), (5, 3), (64, 16), (65, 3))] + \
                  [(c, pw, sa) for c in (2, 3) for (pw, sa) in ((5, 3), (65, 0))]
        oshapes = [(o, 1, 5, 3) for o in (0, 1, 31, 32, 33, 64, 65)] + [(33, 2, 0, 0)] + \
                  [(33, 1, pw, 2) for pw in (63, 64, 65)]       # password length around the HMAC block size, whole function
    else:
        fshapes = [(c, pw, sa) for c in (0, 1, 2, 3, 4, 5) for (pw, sa) in ((0, 0), (5, 3), (64, 16), (65, 3), (100, 0))]
        oshapes = [(o, 1, 5, 3) for o in (0, 1, 31, 32, 33, 63, 64, 65, 96, 100)] + [(33, 2, 0, 0), (65, 3, 65, 16), (40, 0, 5, 3)] + \
                  [(33, c, pw, 2) for pw in (1, 32, 63, 64, 65, 66, 100) for c in (1, 2)]
    for (c, pw, sa) in fshapes:
        jobs.append(cut2fold("pbkdf2-F-c%d-pw%d-s%d" % (c, pw, sa), "c14_pbkdf2.c",
                             {"VARIANT": 0, "COUNT": c, "PWLEN": pw, "SALTLEN": sa}, HMAC_SRC, "F function, symbolic 32-bit block number", tier))
    for (o, c, pw, sa) in oshapes:
        jobs.append(cut2fold("pbkdf2-out%d-c%d-pw%d-s%d" % (o, c, pw, sa), "c14_pbkdf2.c",
                             {"VARIANT": 1, "OUTLEN": o, "COUNT": c, "PWLEN": pw, "SALTLEN": sa}, HMAC_SRC, "whole function == RFC 8018", tier))
    for o in (0, 1, 33, 64, 300) if tier == "quick" else (0, 1, 31, 32, 33, 64, 65, 8160, 8193, 8224):
        j = Job("pbkdf2-outer-loop-out%d" % o, "c14_pbkdf2.c", {"VARIANT": 2, "OUTLEN": o, "PWLEN": 2, "SALTLEN": 2},
                LIBC + CLEAN, CLEAN + HMAC_SRC + HASH_REAL + D.perm_real(256), backend="sat", unwind=o + 40, timeout=900 if o < 1000 else 3000,
                facet="outer loop with F stubbed: > 255 blocks",
                instrument=[(S("tinyjambu-pbkdf2.c")[0], ["tinyjambu_pbkdf2_f"])], instrument_defs=["-Dstatic="])
        jobs.append(j)
    jobs += api_probes("pbkdf2", 5, LIBC + ABSFOLD + CLEAN + HMAC_SRC + S("tinyjambu-pbkdf2.c"),
                       (os.path.join(HARN, "c14_pbkdf2.c"), {"VARIANT": 1, "COUNT": 1, "PWLEN": 5, "SALTLEN": 3, "VERIF_CUT2": None},
                        CUT2_NATIVE + HMAC_SRC, "OUTLEN"), bounds=(("1M", 1 << 20), ("4G", (1 << 32) - 1)))
    meta = {
        "functions": ["tinyjambu_pbkdf2", "tinyjambu_pbkdf2_f (static; reached by #including the TU)", "tinyjambu_hmac_* (real code)"],
        "units": ["src/tinyjambu-pbkdf2.c", "src/tinyjambu-hmac.c", "src/backend/tinyjambu-clean.c"],
        "bounds": "F: iteration count 0..3 (thorough 0..5), password lengths {0,5,64,65(,100)}, salt lengths {0,3,16}, block number a "
                  "symbolic 32-bit value; whole function: output lengths {0,1,31,32,33,64,65} (thorough + 63,96,100); outer loop with F "
                  "replaced by a recording stub (compiled with -Dstatic= so that the stub can be linked): output lengths up to 8224 "
                  "(thorough: 8160, 8193, 8224 bytes = up to 257 blocks): block numbers 1,2,3,..., offsets, truncation of the last block, count "
                  "passed through as a symbolic 32-bit value",
        "outside": "iteration counts above 5 in a single query (the loop body is uniform: count only controls the trip count of "
                   "`while (count > 2)`); passwords longer than 100 bytes",
        "stubs": ["memcpy/memset/explicit_bzero: byte loops", FOLD_STUB, CUT2_STUBS[2]],
        "assumptions": AEAD_ASSUME, "relies_on": ["C12 (same real hmac.c is linked here, so not an assumption)", "C10/C11/C20 hash contract"],
    }
    return jobs, meta


# ---- PRNG: C15 / C16 / C17 ----------------------------------------------------------------------
def prng(name, defines, facet, tier, timeout=None, unwind=140):
    return cut2fold(name, "c15_prng.c", defines, [], facet, tier, unwind=unwind, timeout=timeout)


PRNG_META = {
    "units": ["src/tinyjambu-prng.c (#included by the harness to reach the private state layout)", "src/backend/tinyjambu-clean.c"],
    "stubs": ["memcpy/memset/explicit_bzero: byte loops", FOLD_STUB,
              "entropy callback: writes K symbolic bytes into the buffer and returns K (K concrete per query: 0, 1, 31, 32), logs size / user data / "
              "buffer contents before", "tinyjambu_trng_generate (system source, C17 NULL-callback query only): 32 symbolic bytes, symbolic status",
              "oracle: models/kdf_spec.c spec_drbg_*, written from SP 800-90A r1 10.1.1 / 10.3.1 with the documented deviations"],
    "assumptions": AEAD_ASSUME + ["the state object is exactly the 88-byte private struct (any access to the 8 padding bytes of the public type "
                                  "is a bounds failure), except for init which memsets the public size"],
    "relies_on": ["C10/C11/C20 hash contract (Cut 2)"],
}


@prop("C15")
def c15(tier):
    jobs = []
    sizes = (1, 31, 32, 33, 64, 70) if tier == "quick" else (1, 2, 31, 32, 33, 63, 64, 65, 70, 96, 97)
    for sz in sizes:
        jobs.append(prng("gen-size%d-noreseed" % sz, {"VARIANT": 1, "SIZE": sz, "CTR": 1, "LIMIT": 32}, "generate: no reseed inside", tier))
        for k in ((32, 1) if tier == "quick" else (32, 31, 1, 0)):
            jobs.append(prng("gen-size%d-reseed-first-k%d" % (sz, k), {"VARIANT": 1, "SIZE": sz, "CTR": 33, "LIMIT": 32, "KDELIV": k}, "generate: reseed before the first block", tier))
            if sz > 32:
                jobs.append(prng("gen-size%d-reseed-inside-k%d" % (sz, k), {"VARIANT": 1, "SIZE": sz, "CTR": 32, "LIMIT": 32, "KDELIV": k}, "generate: reseed falls inside the call", tier))
    jobs.append(prng("gen-size0", {"VARIANT": 1, "SIZE": 0, "CTR": 40, "LIMIT": 32}, "generate(0) changes nothing", tier))
    jobs.append(prng("gen-size40-limit1", {"VARIANT": 1, "SIZE": 40, "CTR": 1, "LIMIT": 1, "KDELIV": 32}, "generate: limit 1, reseed every block", tier))
    for ln in (range(0, 9) if tier == "quick" else list(range(0, 9)) + [31, 32, 33, 64]):
        jobs.append(prng("feed-len%d" % ln, {"VARIANT": 2, "LEN": ln}, "feed", tier))
    for k in (0, 1, 31, 32):
        jobs.append(prng("reseed-k%d" % k, {"VARIANT": 3, "KDELIV": k}, "reseed", tier))
        for cl in ((0, 3, 8) if tier == "quick" else range(0, 9)):
            jobs.append(prng("init-custom%d-k%d" % (cl, k), {"VARIANT": 4, "CUSTOMLEN": cl, "KDELIV": k}, "init_user on arbitrary prior contents", tier))
    jobs.append(prng("setlimit", {"VARIANT": 5}, "set_reseed_limit(symbolic)", tier))
    jobs += api_probes("prng", 6, LIBC + ABSFOLD + CLEAN + S("tinyjambu-prng.c", "random/tinyjambu-trng-dev-random.c"),
                       (os.path.join(HARN, "c15_prng.c"), {"VARIANT": 1, "CTR": 1, "LIMIT": 32768, "KDELIV": 32, "VERIF_CUT2": None}, CUT2_NATIVE, "SIZE"),
                       bounds=(("1M", (1 << 20) - 64), ("4G", (1 << 32) - 1)))
    jobs.append(prng("dep-feed", {"VARIANT": 7, "OP": 0, "LEN": 4}, "new state depends on the old state", tier))
    jobs.append(prng("dep-reseed", {"VARIANT": 7, "OP": 1}, "new state depends on the old state", tier))
    meta = dict(PRNG_META)
    meta.update({
        "functions": ["tinyjambu_prng_generate", "tinyjambu_prng_feed", "tinyjambu_prng_reseed", "tinyjambu_prng_init_user",
                      "tinyjambu_prng_set_reseed_limit", "tinyjambu_hash_df / tinyjambu_hash_prefixed (static)"],
        "bounds": "one operation from an ARBITRARY state (V, C symbolic; counter/limit concrete per case): generate sizes {1,31,32,33,64,70} "
                  "(thorough up to 97) without reseed / reseed before the first block / reseed inside the call, deliveries K in {32,1} "
                  "(thorough {32,31,1,0}); feed lengths 0..8 (thorough + 31..64) with symbolic counter; reseed; init with custom lengths {0,3,8} "
                  "(thorough 0..8) x K in {0,1,31,32}; set_reseed_limit with a symbolic 64-bit argument; the 256-bit add V + H + C + counter is "
                  "compared with the model for all V, H, C (H outputs are unconstrained). By induction over operations: every call history.",
        "outside": "a single generate call longer than 97 bytes; fed / custom strings longer than the listed lengths; the induction over the "
                   "operation sequence is stated, not machine-checked",
    })
    return jobs, meta


@prop("C16")
def c16(tier):
    jobs = []
    for sz in ((0, 1, 32, 33, 64, 65) if tier == "quick" else (0, 1, 31, 32, 33, 64, 65, 96, 97)):
        jobs.append(prng("inv-gen-size%d" % sz, {"VARIANT": 1, "SIZE": sz, "SYM": None}, "invariant step: generate, symbolic counter/limit/E", tier,
                         timeout=900 if tier == "quick" else 3000))
    for ln in (0, 5):
        jobs.append(prng("inv-feed-len%d" % ln, {"VARIANT": 2, "LEN": ln}, "invariant step: feed (symbolic counter)", tier))
    for k in (0, 32):
        jobs.append(prng("inv-reseed-k%d" % k, {"VARIANT": 3, "KDELIV": k}, "invariant step: reseed (symbolic counter)", tier))
        jobs.append(prng("inv-init-k%d" % k, {"VARIANT": 4, "CUSTOMLEN": 2, "KDELIV": k}, "invariant step: init sets limit 32 blocks, counter 1", tier))
    jobs.append(prng("inv-setlimit", {"VARIANT": 5}, "invariant step: set_reseed_limit(symbolic size_t)", tier))
    # concrete walks across a lowered limit
    jobs.append(prng("gen-size40-limit1", {"VARIANT": 1, "SIZE": 40, "CTR": 1, "LIMIT": 1, "KDELIV": 32}, "limit 1: one request per block", tier))
    jobs.append(prng("gen-size33-lowered-limit", {"VARIANT": 1, "SIZE": 33, "CTR": 20, "LIMIT": 2, "KDELIV": 32}, "lowered limit acts at the next block", tier))
    meta = dict(PRNG_META)
    meta.update({
        "functions": ["tinyjambu_prng_generate", "tinyjambu_prng_feed", "tinyjambu_prng_reseed", "tinyjambu_prng_init_user", "tinyjambu_prng_set_reseed_limit"],
        "bounds": "inductive invariant I: 1 <= counter, 1 <= limit <= 32768, E <= 32*(counter-1) with ghost E = bytes emitted since the last entropy "
                  "request (blocks counted by a ghost in the abstract hash, reset in the callback stub). Steps from an arbitrary state satisfying I "
                  "with counter, limit and E SYMBOLIC: generate(size in {0,1,32,33,64,65}; thorough + 31,96,97): I preserved, and whenever the call "
                  "emitted, E <= 32*limit at every request and at return; feed: counter strictly increases, no request; reseed/init: one request, "
                  "counter 1; set_reseed_limit(x) for a symbolic 64-bit x: limit = max(1, ceil(min(x, 2^20)/32)). Induction covers every "
                  "interleaving of every length.",
        "outside": "a single generate call longer than 97 bytes; the induction meta-step is stated, not machine-checked",
    })
    return jobs, meta


@prop("C17")
def c17(tier):
    jobs = []
    for k in (0, 1, 31, 32):
        jobs.append(prng("status-reseed-k%d" % k, {"VARIANT": 3, "KDELIV": k}, "reseed status and post-state", tier))
        for cl in (0, 5):
            jobs.append(prng("status-init-custom%d-k%d" % (cl, k), {"VARIANT": 4, "CUSTOMLEN": cl, "KDELIV": k}, "init status and post-state", tier))
    for k in (1, 31):
        jobs.append(prng("short-delivery-mixed-reseed-k%d" % k, {"VARIANT": 8, "OP": 1, "KDELIV": k}, "short delivery still mixed in", tier))
        jobs.append(prng("short-delivery-mixed-init-k%d" % k, {"VARIANT": 8, "OP": 0, "KDELIV": k}, "short delivery still mixed in", tier))
    for cl in (0, 3):
        jobs.append(prng("null-callback-custom%d" % cl, {"VARIANT": 6, "CUSTOMLEN": cl}, "NULL callback == plain init", tier))
    for (sz, k) in ((33, 0), (64, 1)):
        jobs.append(prng("usable-after-failure-size%d-k%d" % (sz, k), {"VARIANT": 1, "SIZE": sz, "CTR": 33, "LIMIT": 32, "KDELIV": k},
                         "generate after a failed delivery follows the model (memory safe, advancing state)", tier))
    meta = dict(PRNG_META)
    meta.update({
        "functions": ["tinyjambu_prng_init", "tinyjambu_prng_init_user", "tinyjambu_prng_reseed", "tinyjambu_prng_generate", "tinyjambu_prng_system (static)"],
        "bounds": "deliveries K in {0,1,31,32} for init (custom lengths 0, 5; NULL custom pointer for 0) and reseed: status != 0 <=> K == 32, post-state == "
                  "model with the delivered prefix mixed in; negated-dependence queries show the K delivered bytes influence the new state; NULL "
                  "callback vs plain init with the system source stubbed: same status, same calls, byte-identical 96-byte state",
        "outside": "'nor return constant output' beyond model conformance (block i is H(V_i) with V advancing) is not a solver statement",
    })
    return jobs, meta


# ---- C18 -------------------------------------------------------------------------------
@prop("C18")
def c18(tier):
    jobs = []
    kmax = 20 if tier == "quick" else 48
    for (cfg, label) in (("default", "getrandom"), ("getentropy", "getentropy"), ("syscall", "raw-syscall")):
        jobs.append(Job("trng-%s-k%d" % (label, kmax), "c18_trng.c", {"KMAX": kmax}, LIBC, [], backend="sat", unwind=32 * kmax + 40,
                        timeout=900, config=cfg, facet="fault script, %s variant" % label))
    jobs.append(Job("trng-dev-urandom-k%d" % kmax, "c18_trng.c", {"KMAX": kmax, "VARIANT_DEV": None}, LIBC, [], backend="sat",
                    unwind=32 * kmax + 40, timeout=900, config="syscall", facet="fault script, /dev/urandom variant (open/read/close)"))
    for (cfg, label) in (("default", "getrandom"), ("syscall", "raw-syscall")):
        d = {"KMAX": 4 if tier == "quick" else 20, "CHAIN": None, "VERIF_CUT2": None}
        jobs.append(Job("chain-prng-init-%s" % label, "c18_trng.c", d, CUT2_CBMC, CUT2_NATIVE, backend="sat",
                        unwind=32 * d["KMAX"] + 40, timeout=900, config=cfg, facet="tinyjambu_prng_init over the fault script"))
    meta = {
        "level": "fault_enumeration",
        "functions": ["tinyjambu_trng_generate", "tinyjambu_dev_random_read (static)", "tinyjambu_dev_random_open (static)",
                      "tinyjambu_prng_init / tinyjambu_prng_system (chain queries)"],
        "units": ["src/random/tinyjambu-trng-dev-random.c (#included after renaming the OS entry points)", "src/tinyjambu-prng.c (chain)"],
        "bounds": "symbolic fault script of length K = 20 (thorough 48) over {success, EINTR, EAGAIN, permanent error with any other errno "
                  "in 1..4095, (device variant) short read}, assumed to contain a terminal event; four build variants: HAVE_GETRANDOM, "
                  "HAVE_GETENTROPY only, raw SYS_getrandom syscall, /dev/urandom with open/read/close (open may fail); number of OS calls == "
                  "index of the first terminal event + 1 (retries, no give-up, no extra call), success => the 32 OS bytes, permanent => 0 and "
                  "a zeroed buffer; loop unwinding assertion (no hang within the script); descriptor closed iff opened. The retry loop carries "
                  "no state between iterations, so the result extends to any finite number of transient errors (stated, not checked).",
        "outside": "scripts longer than K transient errors; getrandom() returning fewer than 32 bytes (documented not to happen for requests "
                   "<= 256 bytes); read() returning 0 forever; non-Linux TRNG back ends",
        "stubs": ["getrandom / getentropy / syscall(SYS_getrandom) / open / read / close: renamed by the preprocessor to harness stubs that follow "
                  "the symbolic script and set the real errno", "memset: byte loop", CUT2_STUBS[1] + " (chain queries)"],
        "assumptions": AEAD_ASSUME, "relies_on": ["C17 (seeding status)", "C15 (model of instantiate)"],
    }
    return jobs, meta


# ---- C20 -------------------------------------------------------------------------------
@prop("C20")
def c20(tier):
    jobs = []
    free_srcs = LIBC + CLEAN + S("tinyjambu-hash.c", "tinyjambu-hmac.c", "tinyjambu-hkdf.c", "tinyjambu-prng.c") + PERM_UF
    free_nat = CLEAN + S("tinyjambu-hash.c", "tinyjambu-hmac.c", "tinyjambu-hkdf.c", "tinyjambu-prng.c",
                         "random/tinyjambu-trng-dev-random.c") + D.perm_real(256)
    for cfg in ("default", "volatile", "memset_s"):
        extra = []
        # glibc has no Annex K: rsize_t is mapped to size_t and memset_s is the harness's contract stub
        defs = {"STUB_MEMSET_S": None, "rsize_t": "size_t"} if cfg == "memset_s" else {}
        for which in ("hash", "hmac", "hkdf", "prng"):
            d = dict(defs); d.update({"VARIANT": 1, "WHICH": which})
            jobs.append(Job("free-%s-%s" % (which, cfg), "c20_erase.c", d, free_srcs, free_nat,
                            backend="sat", unwind=120, config=cfg, extra=extra, facet="X_free zeroes the whole state (%s)" % cfg))
        ns = range(0, 71) if tier != "quick" else list(range(0, 20)) + [31, 32, 33, 55, 56, 64, 70]
        for n in ns:
            for off in (range(8) if (tier != "quick" or n in (0, 1, 7, 8, 9, 33)) else (0, 3)):
                d = dict(defs); d.update({"VARIANT": 2, "N": n, "OFF": off})
                jobs.append(Job("clean-n%d-off%d-%s" % (n, off, cfg), "c20_erase.c", d, LIBC + CLEAN, CLEAN,
                                backend="sat", unwind=n + 40, config=cfg, extra=extra, facet="tinyjambu_clean exact range (%s)" % cfg))
    jobs.append(Job("free-null", "c20_erase.c", {"VARIANT": 3}, free_srcs, free_nat, backend="sat", unwind=120, facet="free(NULL) no-op"))
    if os.path.exists(os.path.join(D.VERIF, "e3", "ctcheck.py")):
        # survives optimisation (clang IR): clean zeroes exactly its range, and every wipe the C sources contain is still executed
        for opt in (("O2", "O3") if tier == "quick" else ("O0", "O1", "O2", "O3")):
            for cfg in ("default", "volatile"):
                for (n, off) in ((0, 0), (1, 1), (3, 0), (7, 1), (33, 3), (70, 5)):
                    jobs.append(e3_job("ir-%s-clean-n%d-off%d-%s" % (opt, n, off, cfg), "clean", {"n": n, "off": off},
                                       "clang IR %s: tinyjambu_clean exact range (%s)" % (opt, cfg), opt, config=cfg))
            jobs.append(e3_job("ir-%s-wipes-hmac" % opt, "hmac", {"k": 65, "m": 20}, "clang IR %s: wipes survive" % opt, opt, wipes=True))
            jobs.append(e3_job("ir-%s-wipes-hash-oneshot" % opt, "hash-oneshot", {"n": 33}, "clang IR %s: wipes survive" % opt, opt, wipes=True))
            jobs.append(e3_job("ir-%s-wipes-hkdf" % opt, "hkdf", {"k": 16, "s": 16, "i": 3, "out": 40}, "clang IR %s: wipes survive" % opt, opt, wipes=True))
            jobs.append(e3_job("ir-%s-wipes-pbkdf2" % opt, "pbkdf2", {"pw": 5, "s": 3, "out": 40, "count": 2}, "clang IR %s: wipes survive" % opt, opt, wipes=True))
            jobs.append(e3_job("ir-%s-wipes-prng" % opt, "prng", {"size": 40, "ctr": 1, "limit": 32, "k": 32, "feed": 3}, "clang IR %s: wipes survive" % opt, opt, wipes=True))
            jobs.append(e3_job("ir-%s-wipes-hmac-volatile" % opt, "hmac", {"k": 65, "m": 20}, "clang IR %s: wipes survive (volatile fallback)" % opt, opt, config="volatile", wipes=True))
    meta = {
        "functions": ["tinyjambu_clean", "tinyjambu_hash_free", "tinyjambu_hmac_free", "tinyjambu_hkdf_free", "tinyjambu_prng_free"],
        "units": ["src/backend/tinyjambu-clean.c", "src/tinyjambu-hash.c", "src/tinyjambu-hmac.c", "src/tinyjambu-hkdf.c", "src/tinyjambu-prng.c"],
        "bounds": "free: state objects of 56/56/72/96 arbitrary bytes (subsumes every history), all bytes zero afterwards; clean: sizes 0..70 x "
                  "offsets 0..7 (quick: a cross-section) inside a buffer with 8 guard bytes on each side, exactly the requested range zeroed; three "
                  "configurations of the primitive: HAVE_EXPLICIT_BZERO (host default), volatile-loop fallback (real loop), HAVE_MEMSET_S",
        "outside": "gcc's optimiser (survival of the clearing is decided on clang -O2/-O3 IR by E3: tinyjambu_clean zeroes exactly its range in both "
                   "configurations and the wiping calls of hmac / hash / hkdf / pbkdf2 / prng are still executed with the right object and size); "
                   "explicit_bzero / memset_s themselves are libc contracts (stubs)",
        "stubs": ["explicit_bzero, memset_s: zero exactly n bytes (documented contract)", "memcpy/memset byte loops",
                  "permutation UF (only linked, not reached)"],
        "assumptions": AEAD_ASSUME, "relies_on": [],
    }
    return jobs, meta


# ---- C05 -------------------------------------------------------------------------------
E2 = os.path.join(D.VERIF, "e2")
ASM_ISAS = [("armv6", "armv6"), ("armv6m", "armv6m"), ("armv7m", "armv7m"), ("avr5", "avr5"), ("riscv32e", "riscv32e"),
            ("riscv32i", "riscv32i"), ("riscv64i", "riscv64i"), ("xtensa", "xtensa-call0"), ("xtensa", "xtensa-windowed")]


def c05_rounds(tier):
    return [1, 2, 3, 5, 8, 9, 10, 20, 24] if tier == "quick" else list(range(1, 25))


@prop("C05")
def c05(tier):
    jobs = []
    jobs.append(Job("c32-lemmaA", "c05_perm.c", {"VARIANT": 1}, SPEC, SPEC, backend="sat", unwind=40, facet="portable C: Lemma A (macro == 32 NLFSR steps)"))
    for ks in KSS:
        for r in c05_rounds(tier):
            jobs.append(Job("c32-%d-lemmaB-r%d" % (ks, r), "c05_perm.c", {"VARIANT": 2, "KS": ks, "ROUNDS": r}, SPEC + D.perm_real(ks),
                            SPEC + D.perm_real(ks), backend="z3", unwind=4 * r + 40, timeout=600,
                            facet="portable C: Lemma B (real function == word-level chain)"))
        for r in ((1, 2) if tier == "quick" else (1, 2, 3, 4)):
            jobs.append(Job("c32-%d-direct-r%d" % (ks, r), "c05_perm.c", {"VARIANT": 3, "KS": ks, "ROUNDS": r}, SPEC + D.perm_real(ks),
                            SPEC + D.perm_real(ks), backend="kissat", unwind=128 * r + 20, timeout=1800,
                            facet="portable C: real function == bit-serial NLFSR directly"))
    if os.path.exists(os.path.join(E2, "asmcheck.py")):
        jobs.append(CmdJob("asm-lemmaA", ["python3-vt", os.path.join(E2, "asmcheck.py"), "--lemma-a"], timeout=300, facet="assembly: Lemma A in z3"))
        jobs.append(CmdJob("asm-isa-selftest", ["python3-vt", os.path.join(E2, "asmcheck.py"), "--selftest"], timeout=1800,
                           facet="ISA model validation against test/unit/test-permutation.c vectors"))
        for ks in KSS:
            for (fisa, isa) in ASM_ISAS:
                f = os.path.join(D.SRC, "backend/tinyjambu-%d-asm-%s.S" % (ks, fisa))
                for r in c05_rounds(tier):
                    jobs.append(CmdJob("asm-%d-%s-r%d" % (ks, isa, r),
                                       ["python3-vt", os.path.join(E2, "asmcheck.py"), "--file", f, "--isa", isa, "--keybits", str(ks),
                                        "--rounds", str(r), "--seed", str(D.SEED)], timeout=900 if tier == "quick" else 3000,
                                       facet="assembly %s" % isa, shape={"keybits": ks, "isa": isa, "rounds": r}))
        jobs.append(CmdJob("generators-and-selection", ["python3-vt", os.path.join(E2, "gencheck.py")], timeout=600,
                           facet="generator identity (finite, exhaustive) and backend selection"))
    meta = {
        "level": "translation_validation",
        "functions": ["tinyjambu_permutation_128/192/256 (portable C)", "tinyjambu_steps_32 (macro)",
                      "tinyjambu_permutation_N in 24 assembly files x ABI variants (E2)"],
        "units": ["src/backend/tinyjambu-{128,192,256}-c32.c", "src/backend/tinyjambu-backend.h",
                  "src/backend/tinyjambu-{128,192,256}-asm-{armv6,armv6m,armv7m,avr5,riscv32e,riscv32i,riscv64i,xtensa}.S",
                  "tools/gen{arm,riscv,xtensa}"],
        "bounds": "all 2^128 states x all keys symbolic; round counts {1,2,3,5,8,9,10,20,24} (thorough: 1..24); portable C: Lemma A (macro == 32 "
                  "bit-serial steps, SAT), Lemma B per round count (real function == word-level chain, z3), direct equality with the bit-serial NLFSR "
                  "for r <= 2 (thorough 4); assembly: cut-point equivalence with the same chain per (file, ABI variant, r), frame and ABI facts, "
                  "concrete control flow",
        "outside": "round counts above 24; execution on real hardware (the ISA semantics of E2 are trusted base, validated against the repo's "
                   "permutation test vectors); gcc's code generation for the C backend",
        "stubs": [], "assumptions": ["cbmc / z3 / kissat trusted", "ISA semantics and ABI tables in /verif/e2 (see its README) are trusted",
                                     "composition Lemma A o Lemma B is equational (stated, not machine-checked)"],
        "relies_on": [],
        "coverage_fn": lambda results, violations: {
            "programs": len(set(re.sub(r"-(r\d+|lemma.*|direct.*)$", "", r["name"]) for r in results
                                if r["status"] == "PASS" and (r["name"].startswith("asm-1") or r["name"].startswith("asm-2") or r["name"].startswith("c32-1") or r["name"].startswith("c32-2")))),
            "disagreements_checked": len(violations),
            "explanation": "programs = distinct backend programs (file x ABI variant) whose obligations were all discharged this run"},
        "rule": "one obligation per (backend program, ABI variant, round count) or lemma; all state and key bits symbolic; distinct = distinct "
                "(program, variant, rounds) tuples that reached a verdict",
    }
    return jobs, meta


# ---- C19 -------------------------------------------------------------------------------
@prop("C19")
def c19(tier):
    jobs = []
    for cfg in ("default", "volatile", "syscall"):
        jobs.append(CmdJob("structure-%s" % cfg, [sys.executable, os.path.join(D.VERIF, "lib/c19_struct.py"), cfg], timeout=600,
                           facet="structural: no writable statics, no heap, imports (from goto-cc output)", shape={"config": cfg}))
    # family 0: AEAD / SIV / hash / clean on the real code (permutation = UF)
    src0 = LIBC + PERM_UF + CLEAN + HASH_REAL + SPEC + KDFSPEC + S("backend/tinyjambu-util.c")
    for ks in KSS:
        src0 += S("tinyjambu-%d-aead.c" % ks, "tinyjambu-%d-siv.c" % ks, "backend/tinyjambu-aead-common-%d.c" % ks)
    nat0 = [x for x in src0 if not x.endswith("libc.c") and not x.endswith("perm_uf.c")] + D.ALL_PERMS
    pairs0 = [(a, b) for a in range(3) for b in range(5)] if tier != "quick" else [(0, 0), (0, 2), (0, 3), (1, 1), (1, 4), (2, 2), (2, 0)]
    for (a, b) in pairs0:
        jobs.append(Job("history-real-A%d-B%d" % (a, b), "c19_hist.c", {"FAMILY": 0, "HA": a, "HB": b}, src0, nat0, backend="kissat", unwind=170,
                        timeout=1200, facet="history independence with reused buffers: AEAD/SIV/hash/clean"))
    # family 1: HMAC / HKDF / PBKDF2 / PRNG real code over the abstract hash
    src1 = LIBC + ABSFOLD + KDFSPEC + CLEAN + S("tinyjambu-hmac.c", "tinyjambu-hkdf.c", "tinyjambu-pbkdf2.c", "tinyjambu-prng.c", "random/tinyjambu-trng-dev-random.c")
    nat1 = CUT2_NATIVE + S("tinyjambu-hmac.c", "tinyjambu-hkdf.c", "tinyjambu-pbkdf2.c", "tinyjambu-prng.c", "random/tinyjambu-trng-dev-random.c")
    pairs1 = [(a, b) for a in range(2) for b in range(3)] if tier != "quick" else [(0, 0), (1, 2), (1, 0)]
    for (a, b) in pairs1:
        jobs.append(Job("history-kdf-A%d-B%d" % (a, b), "c19_hist.c", {"FAMILY": 1, "HA": a, "HB": b, "VERIF_CUT2": None}, src1, nat1, backend="z3",
                        unwind=340, timeout=1200, facet="history independence with reused buffers: HMAC/PBKDF2 (long keys) over Cut 2"))
    # conformance with every static-lifetime object NONDETERMINISTIC: any static that is read before being written
    # (a cache, a lazily initialised table, a scratch buffer) makes the output differ from the model
    for (k, m) in ((5, 9), (70, 3)):
        jobs.append(Job("nondet-static-hmac-k%d-m%d" % (k, m), "c12_hmac.c", {"VARIANT": 0, "KEYLEN": k, "MSGLEN": m, "VERIF_CUT2": None},
                        LIBC + ABSFOLD + KDFSPEC + CLEAN + HMAC_SRC, CUT2_NATIVE + HMAC_SRC, backend="z3", unwind=340, timeout=900,
                        extra=["--nondet-static"], facet="conformance under --nondet-static"))
    jobs.append(Job("nondet-static-pbkdf2", "c14_pbkdf2.c", {"VARIANT": 1, "OUTLEN": 33, "COUNT": 2, "PWLEN": 70, "SALTLEN": 3, "VERIF_CUT2": None},
                    LIBC + ABSFOLD + KDFSPEC + CLEAN + HMAC_SRC, CUT2_NATIVE + HMAC_SRC, backend="z3", unwind=340, timeout=900,
                    extra=["--nondet-static"], facet="conformance under --nondet-static"))
    for ks in KSS:
        jobs.append(Job("nondet-static-aead-%d" % ks, "c02_conf.c", {"KS": ks, "MODE": "aead", "ADLEN": 5, "MLEN": 9}, aead_cbmc(ks) + SPEC,
                        aead_native(ks) + SPEC, backend="z3", unwind=60, extra=["--nondet-static"], facet="conformance under --nondet-static"))
        jobs.append(Job("nondet-static-siv-%d" % ks, "c02_conf.c", {"KS": ks, "MODE": "siv", "MODE_SIV": None, "ADLEN": 3, "MLEN": 6}, aead_cbmc(ks, "siv") + SPEC,
                        aead_native(ks, "siv") + SPEC, backend="z3", unwind=60, extra=["--nondet-static"], facet="conformance under --nondet-static"))
    jobs.append(Job("nondet-static-hash", "c10_hash.c", {"N": 37, "C1": 5, "C2": 20}, HASH_CBMC + HASH_REAL, HASH_NATIVE + HASH_REAL, backend="kissat",
                    unwind=60, timeout=900, extra=["--nondet-static"], facet="conformance under --nondet-static"))
    meta = {
        "functions": ["every function of every library translation unit (structural facts)", "AEAD/SIV encrypt+decrypt, hash, HMAC, HKDF, clean (history queries)"],
        "units": ["all 25 .c files under src/ (goto-cc symbol tables and call sites)", "src/*.c linked for the history queries"],
        "bounds": "fact 1 (structural, not a solver query): the goto-cc symbol table of every library TU has no writable object with static "
                  "lifetime and the call sites import only memcpy, memset, explicit_bzero|memset_s, getrandom|getentropy|syscall|open|read|close, "
                  "__errno_location; three build configurations; fact 2 (solver): every API call writes only objects reachable from its arguments - "
                  "shared with C06's exact-size-object queries; fact 3 (solver): out1 = A(x), unrelated B(y), out2 = A(x) => out1 == out2 with all "
                  "static-lifetime objects nondeterministic (--nondet-static), 10 (thorough 21) (A,B) pairs; plus output == specification model for HMAC (short and long key), PBKDF2 (long password), AEAD, SIV and the hash, again under --nondet-static, so a static that is read before being written shows as a difference from the model. 1 and 2 give: two calls on disjoint objects "
                  "access disjoint locations, hence commute, hence every interleaving equals a serial order (meta-step, stated).",
        "outside": "actual multi-threaded execution (CBMC's thread support gives no verdict on these functions within budget: DESIGN 5.5); the "
                   "commutation argument is a meta-step; data races inside libc",
        "stubs": AEAD_STUBS, "assumptions": AEAD_ASSUME, "relies_on": ["C06 frame facts"],
    }
    return jobs, meta


# ---- C06 -------------------------------------------------------------------------------
@prop("C06")
def c06(tier):
    """Memory safety / exact buffer contract: every query of the other properties already runs with exact-size heap
    objects (NULL for length 0), all CBMC pointer / bounds / overflow / shift checks and 'input unmodified' assertions.
    C06 re-runs a cross-section of them that touches every public function, every block/tail boundary and every
    zero-length / NULL case, as its own check."""
    import copy
    picked = []

    def take(pid, pred, prefix):
        for j in PROPS[pid](tier)[0]:
            if pred(j.name):
                j2 = copy.copy(j)
                j2.name = prefix + j.name
                j2.facet = "memory safety via " + pid + ": " + j.facet
                picked.append(j2)

    small = lambda n: bool(re.search(r"-ad[0-5]-m([0-9]|1[0-7])-", n)) or bool(re.search(r"-ad(8|16|17|33)-m(0|4|33)-", n))
    if tier == "quick":
        small = lambda n: bool(re.search(r"-ad(0|5)-m[0-9]-alias[03]$", n)) or bool(re.search(r"-ad(1|4)-m(0|3|4|5)-alias0$", n))
    take("C01", small, "aead-")
    take("C08", lambda n: n.startswith("rt-siv") and (bool(re.search(r"-ad(0|5)-m[0-9]-alias[03]$", n))), "siv-")
    take("C03", lambda n: n.startswith("dec-") and bool(re.search(r"-ad(0|5)-m(0|1|3|4|5|8)-ip", n)) or n.startswith("short-") or n.startswith("checktag-p"), "aead-")
    take("C08", lambda n: n.startswith("dec-siv") and bool(re.search(r"-ad(0|5)-m(0|1|3|4|5|8)-ip", n)) or n.startswith("short-"), "siv-")
    take("C10", lambda n: bool(re.search(r"hash-n([0-9]|1[5-9]|3[1-3]|4[78]|6[3-5])$", n)) or "split" in n or "oneshot" in n, "")
    take("C11", lambda n: n.startswith("step-posn") and bool(re.search(r"posn(0|1|7|15)-len([0-9]|1[5-8]|3[1-3])$", n)) or n.startswith("finalize") or
         n.startswith("init") or n.startswith("reinit") or n.startswith("null-update"), "hash-")
    take("C12", lambda n: True, "")
    take("C13", lambda n: "stream" in n or "wrapper" in n or bool(re.search(r"step-n(1|2|255|0)-posn(0|31|32)-req(0|1|33)$", n)), "")
    take("C14", lambda n: "out" in n or bool(re.search(r"F-c[01]-", n)), "")
    take("C15", lambda n: bool(re.search(r"gen-size(1|32|33|70)-", n)) or n.startswith("gen-size0") or n.startswith("feed-len") or
         n.startswith("reseed") or n.startswith("init-") or n == "setlimit", "prng-")
    take("C18", lambda n: n.startswith("trng-"), "")
    take("C20", lambda n: n.startswith("free-") or bool(re.search(r"clean-n([0-9]|3[1-3]|70)-off[03]-default$", n)), "")
    take("C05", lambda n: n.startswith("c32-") and ("lemmaB-r1" in n or "lemmaB-r24" in n or "lemmaB-r5" in n), "perm-")
    if os.path.exists(os.path.join(D.VERIF, "e3", "ctcheck.py")):
        # optimised clang IR: bounds of every access, and the IR alignment of every load/store against caller buffers of alignment 1
        for j in e3_ct_jobs(tier):
            if re.search(r"-(ad0-m0|ad1-m2|ad5-m9|ad17-m33|p8|p31|n17-c1|n70-c15|oneshot-n33|k65-m20|k0-m0|out33|out100|out32-c3|size70|size1-|clean-n33)", j.name) or "perm" in j.name:
                j.name = "o2-" + j.name
                j.facet = "memory safety and access alignment on " + j.facet
                picked.append(j)
    meta = {
        "functions": ["all 37 functions declared in src/TinyJAMBU.h (12 AEAD/SIV, 6 hash, 6 HMAC, 4 HKDF, 1 PBKDF2, 7 PRNG, tinyjambu_clean) plus "
                      "tinyjambu_trng_generate and the three portable permutations"],
        "units": ["every .c file under src/ that the host build compiles"],
        "bounds": "every caller buffer is a separate heap object of EXACTLY the declared length (NULL when the length is 0), state objects are "
                  "exactly the public type - or exactly the private struct where that is smaller, so that touching the padding is a failure; CBMC "
                  "pointer, bounds, pointer-overflow, signed-overflow, undefined-shift and division checks on; inputs compared with a saved copy "
                  "after the call; output lengths exact. Shape windows: AEAD/SIV ad in {0,1,4,5} x m in 0..9 separate and fully in place (thorough: "
                  "wider incl. 17, 33), decrypt of arbitrary packets, clen 0..7; hash lengths 0..9,15..19,31..33,47,48,63..65 and 3-way splits, step "
                  "lemma posn {0,1,7,15} x len {0..9,15..18,31..33}; HMAC key lengths 0..200; HKDF / PBKDF2 / PRNG / TRNG / clean as in C13-C18, C20; "
                  "real permutation code at r in {1,5,24}.  'Outputs never depend on uninitialised memory': an uninitialised local is a fresh "
                  "nondeterministic value in CBMC, so every conformance query (output == deterministic model for all nondet) excludes it.",
        "outside": "alignment is decided two ways: E3 executes clang's -O2 IR with caller buffers of alignment 1 and fails on any load/store whose "
                   "IR alignment is not implied (misaligned word access), and the -DVERIF_ALIGN=1..3 variants of C01/C02/C09/C10/C11/C12 run the C sources "
                   "with every buffer at address k mod 4; gcc's objects and sanitizer builds are outside (different technique); NULL + 0 pointer "
                   "arithmetic and mem*(p, NULL, 0) on zero-length buffers are recorded as notes, not violations",
        "stubs": AEAD_STUBS + CUT2_STUBS[1:2] + [FOLD_STUB], "assumptions": AEAD_ASSUME, "relies_on": [],
    }
    return picked, meta


# ---- C07 -------------------------------------------------------------------------------
def ct_job(name, defines, branch, plain, native, facet, tier, backend="sat", unwind=300, timeout=None):
    defines = dict(defines)
    defines.setdefault("TRMAX", 4000)
    unwind = max(unwind, 300)          # library loops only: the trace is compared decision by decision, not in a loop
    return Job(name, "c07_ct.c", defines, plain, native, backend=backend, unwind=unwind,
               timeout=timeout or (600 if tier == "quick" else 1800), facet="C source second opinion: " + facet, branch_srcs=branch)


E3 = os.path.join(D.VERIF, "e3")


def e3_job(name, api, shape, facet, opt="O2", config="default", wipes=False, vectorize=False, timeout=400):
    cmd = ["python3-vt", os.path.join(E3, "ctcheck.py"), "--api", api, "--shape", ",".join("%s=%s" % kv for kv in shape.items()),
           "--opt", opt, "--config", config, "--repo", D.REPO, "--timeout", "120"]
    if wipes:
        cmd.append("--expect-wipes")
    if vectorize:
        cmd.append("--vectorize")
    sh = dict(shape, api=api, opt=opt, config=config, vectorize=vectorize)
    return CmdJob(name, cmd, timeout=timeout, facet=facet, shape=sh)


def e3_ct_jobs(tier):
    """Constant-time queries on clang's IR (E3): control flow AND addresses, lengths, shift amounts, divisors."""
    jobs = []
    opts = [("O2", False)] if tier == "quick" else [("O0", False), ("O2", False), ("O3", False), ("O2", True)]
    lens = [(0, 0), (1, 2), (3, 5), (4, 8), (5, 9), (7, 3), (17, 33)] if tier == "quick" else \
           [(a, m) for a in (0, 1, 2, 3, 4, 5, 8, 17, 33) for m in (0, 1, 2, 3, 4, 5, 9, 16, 17, 33, 65)]
    for (opt, vec) in opts:
        tag = opt + ("v" if vec else "")
        for ks in KSS:
            for api in ("aead-enc", "aead-dec", "siv-enc", "siv-dec"):
                for (a, m) in lens:
                    jobs.append(e3_job("ir-%s-%s-%d-ad%d-m%d" % (tag, api, ks, a, m), api, {"ks": ks, "ad": a, "m": m}, "clang IR %s: %s" % (tag, api), opt, vectorize=vec))
            for r in (5, 8, 10, 20):
                jobs.append(e3_job("ir-%s-perm-%d-r%d" % (tag, ks, r), "perm", {"ks": ks, "rounds": r}, "clang IR %s: permutation" % tag, opt, vectorize=vec))
        for p in (0, 1, 8, 31, 64):
            jobs.append(e3_job("ir-%s-checktag-p%d" % (tag, p), "checktag", {"p": p}, "clang IR %s: tag check" % tag, opt, vectorize=vec))
        for (n, c1) in ((0, 0), (5, 2), (16, 16), (17, 1), (33, 20), (70, 15)):
            jobs.append(e3_job("ir-%s-hash-n%d-c%d" % (tag, n, c1), "hash", {"n": n, "c1": c1}, "clang IR %s: hash" % tag, opt, vectorize=vec))
        for n in (0, 17, 33):
            jobs.append(e3_job("ir-%s-hash-oneshot-n%d" % (tag, n), "hash-oneshot", {"n": n}, "clang IR %s: hash" % tag, opt, wipes=True, vectorize=vec))
        for (k, m) in ((0, 0), (5, 9), (64, 3), (65, 20), (100, 40)):
            jobs.append(e3_job("ir-%s-hmac-k%d-m%d" % (tag, k, m), "hmac", {"k": k, "m": m}, "clang IR %s: HMAC" % tag, opt, wipes=True, vectorize=vec))
            jobs.append(e3_job("ir-%s-hmac-stream-k%d-m%d" % (tag, k, m), "hmac-stream", {"k": k, "m": m, "c1": m // 2}, "clang IR %s: HMAC" % tag, opt, vectorize=vec))
        for (k, sa, i, o) in ((16, 0, 3, 33), (5, 16, 0, 70), (65, 65, 5, 100)):
            jobs.append(e3_job("ir-%s-hkdf-k%d-s%d-out%d" % (tag, k, sa, o), "hkdf", {"k": k, "s": sa, "i": i, "out": o}, "clang IR %s: HKDF" % tag, opt, wipes=True, vectorize=vec))
            jobs.append(e3_job("ir-%s-hkdf-stream-k%d-s%d" % (tag, k, sa), "hkdf-stream", {"k": k, "s": sa, "i": i, "e1": 5, "e2": o}, "clang IR %s: HKDF" % tag, opt, vectorize=vec))
        for (pw, sa, o, c) in ((5, 3, 33, 2), (65, 0, 32, 3), (64, 16, 40, 1)):
            jobs.append(e3_job("ir-%s-pbkdf2-pw%d-out%d-c%d" % (tag, pw, o, c), "pbkdf2", {"pw": pw, "s": sa, "out": o, "count": c}, "clang IR %s: PBKDF2" % tag, opt, wipes=True, vectorize=vec))
        for (sz, ctr, lim, k, fl) in ((33, 1, 32, 32, 3), (40, 32, 32, 1, 0), (1, 40, 32, 0, 8), (70, 2, 2, 31, 5)):
            jobs.append(e3_job("ir-%s-prng-size%d-ctr%d-lim%d-k%d-feed%d" % (tag, sz, ctr, lim, k, fl), "prng",
                               {"size": sz, "ctr": ctr, "limit": lim, "k": k, "feed": fl}, "clang IR %s: PRNG" % tag, opt, wipes=True, vectorize=vec))
        for k in (0, 16, 32):
            jobs.append(e3_job("ir-%s-prng-init-k%d" % (tag, k), "prng-init", {"custom": 3, "k": k}, "clang IR %s: PRNG" % tag, opt, vectorize=vec))
        for cfg in ("default", "volatile"):
            for (n, off) in ((0, 0), (1, 1), (33, 3)):
                jobs.append(e3_job("ir-%s-clean-n%d-off%d-%s" % (tag, n, off, cfg), "clean", {"n": n, "off": off}, "clang IR %s: clean (%s)" % (tag, cfg), opt, config=cfg, vectorize=vec))
    return jobs


@prop("C07")
def c07(tier):
    jobs = []
    if os.path.exists(os.path.join(E3, "ctcheck.py")):
        jobs += [CmdJob("ir-selftest", ["python3-vt", os.path.join(E3, "ctcheck.py"), "--selftest", "--repo", D.REPO], timeout=1800,
                        facet="IR semantics validation: concrete execution of the IR on the repository's KAT vectors")]
        jobs += e3_ct_jobs(tier)
    lens = [(0, 0), (3, 5), (5, 9)] if tier == "quick" else \
           [(a, m) for a in (0, 1, 2, 3, 4, 5, 8) for m in (0, 1, 2, 3, 4, 5, 9, 16, 17)]
    for ks in KSS:
        for mode in ("aead", "siv"):
            lib = D.aead_srcs(ks, mode) + LIBC
            nat = D.perm_real(ks)
            for (a, m) in lens:
                if tier == "quick" and mode == "siv" and (a, m) != (3, 5):
                    continue
                for api, nm in ((1, "enc"), (2, "dec")):
                    jobs.append(ct_job("ct-%s-%s-%d-ad%d-m%d" % (mode, nm, ks, a, m), {"API": api, "KS": ks, "MODE": mode, "VL1": a, "VL2": m},
                                       lib, PERM_UF, nat, "%s %s" % (mode, nm), tier, backend="z3"))
    util = S("backend/tinyjambu-util.c")
    for p in ((0, 1, 8, 31) if tier == "quick" else (0, 1, 2, 7, 8, 9, 31, 32, 33, 64)):
        jobs.append(ct_job("ct-checktag-p%d" % p, {"API": 11, "VL1": p}, util + LIBC, [], [], "tag check and plaintext clearing (real code)", tier))
    for (n, c1) in ((5, 2), (17, 1), (33, 20)) if tier == "quick" else \
            sorted(set((n, c1) for n in (0, 1, 15, 16, 17, 31, 32, 33, 48, 70) for c1 in (0, n // 2, n))):
        jobs.append(ct_job("ct-hash-n%d-c%d" % (n, c1), {"API": 12, "VL1": n, "VL2": c1}, HASH_REAL + CLEAN + LIBC, PERM_UF, D.perm_real(256),
                           "hash init/update/update/finalize/free", tier, backend="kissat"))
    kdf_plain = ABSFOLD
    kdf_nat = HASH_REAL + D.perm_real(256)
    hm = S("tinyjambu-hmac.c") + CLEAN + LIBC
    for (k, m) in ((0, 0), (5, 9), (64, 3), (65, 20)) if tier == "quick" else [(k, m) for k in (0, 1, 32, 63, 64, 65, 100) for m in (0, 7, 33)]:
        jobs.append(ct_job("ct-hmac-k%d-m%d" % (k, m), {"API": 13, "VL1": k, "VL2": m}, hm, kdf_plain, kdf_nat, "HMAC one-shot", tier, backend="z3"))
    for (k, sa, o) in ((16, 0, 33),) if tier == "quick" else ((16, 0, 33), (5, 16, 70), (0, 0, 1), (65, 65, 100)):
        jobs.append(ct_job("ct-hkdf-k%d-s%d-out%d" % (k, sa, o), {"API": 14, "VL1": k, "VL2": sa, "VL3": o}, hm + S("tinyjambu-hkdf.c"), kdf_plain, kdf_nat,
                           "HKDF extract + expand + free", tier, backend="z3", unwind=400))
    for (pw, sa, o, c) in ((5, 3, 33, 2),) if tier == "quick" else ((5, 3, 33, 2), (65, 0, 32, 3), (0, 0, 64, 1), (64, 16, 40, 4)):
        jobs.append(ct_job("ct-pbkdf2-pw%d-s%d-out%d-c%d" % (pw, sa, o, c), {"API": 15, "VL1": pw, "VL2": sa, "VL3": o, "COUNT": c},
                           hm + S("tinyjambu-pbkdf2.c"), kdf_plain, kdf_nat, "PBKDF2", tier, backend="z3", unwind=400))
    for cfg in ("default", "volatile"):
        for n in (0, 1, 33):
            j = ct_job("ct-clean-n%d-%s" % (n, cfg), {"API": 16, "VL1": n}, CLEAN + LIBC, [], [], "tinyjambu_clean (%s)" % cfg, tier)
            j.config = cfg
            jobs.append(j)
    prng_lib = S("tinyjambu-prng.c", "random/tinyjambu-trng-dev-random.c") + CLEAN + LIBC
    for (sz, ctr, lim, k, fl) in ((33, 1, 32, 32, 3), (40, 32, 32, 1, 0), (1, 40, 32, 0, 8)) if tier == "quick" else \
            ((33, 1, 32, 32, 3), (40, 32, 32, 1, 0), (1, 40, 32, 0, 8), (70, 2, 2, 31, 5), (64, 1, 1, 32, 1)):
        jobs.append(ct_job("ct-prng-size%d-ctr%d-lim%d-k%d-feed%d" % (sz, ctr, lim, k, fl),
                           {"API": 20, "VL1": sz, "CTR": ctr, "LIMIT": lim, "VL3": k, "VL2": fl}, prng_lib, kdf_plain, kdf_nat,
                           "PRNG generate + feed + reseed (256-bit carry chain)", tier, backend="z3", unwind=400))
    for ks in KSS:
        for r in ((1, 5, 8) if tier == "quick" else (1, 2, 3, 5, 8, 9, 10, 20)):
            jobs.append(ct_job("ct-perm-%d-r%d" % (ks, r), {"API": 30, "KS": ks, "VL1": r}, D.perm_real(ks), [], [], "portable permutation (real code)", tier,
                               backend="sat", unwind=60))
    meta = {
        "functions": ["every public AEAD/SIV/hash/HMAC/HKDF/PBKDF2/PRNG entry point, tinyjambu_aead_check_tag, tinyjambu_clean, the portable permutations"],
        "units": ["all library TUs of the host build, compiled by goto-cc and instrumented with goto-instrument --branch"],
        "bounds": "PRIMARY (E3, /verif/e3): clang -O2 IR (thorough: -O0, -O2, -O3 and -O2 with vectorisation) of the real translation units is "
                  "executed with every secret byte a z3 variable and every public value concrete; any branch condition, switch value, GEP index / "
                  "address, memcpy/memset length, variable shift amount or divisor that is a secret-derived term is a candidate: the solver must prove "
                  "it constant over all secrets, otherwise the check FAILS with two witness assignments that are replayed concretely on the same IR "
                  "(diverging block / address trace).  On the unmodified tree no secret term reaches any such position (0 candidates), so the verdict "
                  "holds for ALL secret values of each shape.  Shapes: AEAD/SIV enc+dec x 3 key sizes x 7 (ad, m) pairs (thorough 99), permutation "
                  "r in {5,8,10,20}, check_tag, hash (incremental + one-shot), HMAC (5 key classes, one-shot + streamed), HKDF, PBKDF2, PRNG "
                  "generate/feed/reseed/init with short deliveries, clean in both configurations.  `select` on a secret is allowed but counted "
                  "(0 on this tree).  Every load/store's IR alignment is checked against caller buffers of alignment 1 (C06 facet) and the wiping "
                  "calls that must survive optimisation are checked (--expect-wipes, C20 facet).  SECOND OPINION (E1): self-composition on the C "
                  "sources over goto-instrument --branch traces (control flow only).  The assembly backends' control flow is decided in C05.",
        "outside": "machine code after instruction selection (a select may become a branch), gcc's optimiser (only clang IR is executed), "
                   "microarchitectural channels (caches, variable-latency instructions), shapes outside the list.",
        "stubs": AEAD_STUBS + [FOLD_STUB], "assumptions": AEAD_ASSUME + ["goto-instrument --branch instruments every conditional goto of the library binary", "E3: clang-14 IR is a faithful image of the C semantics; the IR interpreter in /verif/e3 (validated by executing the repository KAT vectors concretely through it at O0..O3) is trusted"],
        "relies_on": ["C05 (assembly control flow)"],
    }
    return jobs, meta


# ---- replay ----------------------------------------------------------------------------
def replay(pid, path):
    hdr = {}
    for line in open(path):
        m = re.match(r"#(\w+)=(.*)$", line.strip())
        if m:
            hdr[m.group(1)] = m.group(2)
    jobname = hdr.get("job")
    job = None
    for tier in ("quick", "thorough"):
        for j in PROPS[pid](tier)[0]:
            if j.name == jobname:
                job = j
                break
        if job:
            break
    if job is not None and job.kind == "cmd":
        r = D.run_cmdjob(job)
        print(json.dumps({k: r[k] for k in r if k in ("status", "failed", "counterexample", "reproduced", "why")}))
        if r["status"] == "FAIL":
            print("VIOLATION property=%s replay=%s" % (pid, path))
            return 1
        return 0 if r["status"] == "PASS" else 2
    if job is None:
        print("replay: query %r not found for %s" % (jobname, pid))
        return 2
    exe = D.native_build(job)
    if not exe:
        return 2
    seed = int(hdr.get("seed", D.SEED))
    st, out = D.native_run(exe, None if "seed" in hdr else path, seed)
    print(out.strip())
    print("replay of %s on the natively built library: %s" % (jobname, st))
    if st in ("FAIL", "CRASH", "HANG"):
        print("VIOLATION property=%s replay=%s" % (pid, path))
        return 1
    return 0
