"""Per-property query generators: PROPS[id](tier) -> (jobs, meta)."""
import json
import os
import re
import sys

import driver as D
from driver import Job, CmdJob, S, LIBC, PERM_UF, SPEC, KDFSPEC, ABSHASH, CLEAN, HASH_REAL

KSS = (128, 192, 256)
PROPS = {}


def prop(pid):
    def deco(f):
        PROPS[pid] = f
        return f
    return deco


# ---- shape windows (DESIGN.md section 6) ------------------------------------------------
def aead_window(tier):
    q = [(a, m) for a in range(10) for m in range(10)]
    if tier == "quick":
        return q
    t = set((a, m) for a in range(18) for m in range(18))
    big = (31, 32, 33, 47, 63, 64, 65)
    t |= set((a, m) for a in big for m in big)
    t |= set((a, m) for a in (0, 3, 16) for m in (127, 128, 129, 130, 131, 255, 256, 257, 258, 259, 1023, 1024))
    return sorted(t)


def unwind_for(*lens):
    return max(lens) + 12


def aead_cbmc(ks, mode="aead"):
    return LIBC + PERM_UF + D.aead_srcs(ks, mode)


def aead_native(ks, mode="aead"):
    return D.aead_srcs(ks, mode) + D.perm_real(ks)


AEAD_STUBS = ["memcpy/memset: byte loops, n == 0 is a no-op for any pointers",
              "tinyjambu_permutation_{128,192,256}: uninterpreted functions of (state words, pre-inverted key "
              "words, rounds) writing only s[0..3] (Cut 1; the real permutation code is decided by C05)"]
AEAD_ASSUME = ["cbmc 6.11.0 front end / symex / flattening and z3 4.8.12 are trusted",
               "lengths outside the shape window are not covered",
               "malloc never fails in the harness (the library itself never allocates)",
               "CBMC's memory model is alignment-agnostic; the alignment facet is decided on clang IR (E3) where listed",
               "gcc's optimiser and machine code are outside the claim"]


# ---- C01 -------------------------------------------------------------------------------
@prop("C01")
def c01(tier):
    jobs = []
    for ks in KSS:
        for (a, m) in aead_window(tier):
            thin = (a in (0, 5)) if tier == "quick" else (a <= 17 and m <= 17 and a % 3 == 0) or m > 100
            for alias in (0, 1, 2, 3):
                if alias and not thin:
                    continue
                jobs.append(Job("rt-%d-ad%d-m%d-alias%d" % (ks, a, m, alias), "c01_rt.c",
                                {"KS": ks, "MODE": "aead", "ADLEN": a, "MLEN": m, "ALIAS": alias},
                                aead_cbmc(ks), aead_native(ks), unwind=unwind_for(a, m, 32),
                                timeout=300 if tier == "quick" else 900, facet="roundtrip-alias%d" % alias))
    meta = {
        "functions": ["tinyjambu_%d_aead_encrypt" % k for k in KSS] + ["tinyjambu_%d_aead_decrypt" % k for k in KSS] +
                     ["tinyjambu_setup_N", "tinyjambu_absorb_N", "tinyjambu_generate_tag_N", "tinyjambu_aead_check_tag"],
        "units": ["src/tinyjambu-{128,192,256}-aead.c", "src/backend/tinyjambu-aead-common-{128,192,256}.c",
                  "src/backend/tinyjambu-util.c", "src/backend/tinyjambu-util.h (macros)"],
        "bounds": "(adlen, mlen) window: quick {0..9}^2; thorough {0..17}^2 + {31,32,33,47,63,64,65}^2 + "
                  "{0,3,16} x {127..131,255..259,1023,1024}; all three key sizes; aliasing variants: separate, "
                  "encrypt in place, decrypt in place, both; every key/nonce/ad/plaintext byte symbolic; loops "
                  "fully unrolled with --unwinding-assertions",
        "outside": "lengths outside the window; gcc code generation; alignment (CBMC's memory model has none; "
                   "see C06 alignment facet)",
        "stubs": AEAD_STUBS, "assumptions": AEAD_ASSUME, "relies_on": ["C05 (permutation is a function of state, key, rounds)"],
    }
    return jobs, meta


# ---- replay ----------------------------------------------------------------------------
def replay(pid, path):
    hdr = {}
    for line in open(path):
        m = re.match(r"#(\w+)=(.*)$", line.strip())
        if m:
            hdr[m.group(1)] = m.group(2)
    jobname = hdr.get("job")
    job = None
    for tier in ("quick", "thorough"):
        for j in PROPS[pid](tier)[0]:
            if j.name == jobname:
                job = j
                break
        if job:
            break
    if job is None or job.kind != "cbmc":
        print("replay: query %r not found for %s (E2/E3 findings carry their own replay command in the file)" % (jobname, pid))
        return 2
    exe = D.native_build(job)
    if not exe:
        return 2
    seed = int(hdr.get("seed", D.SEED))
    st, out = D.native_run(exe, None if "seed" in hdr else path, seed)
    print(out.strip())
    print("replay of %s on the natively built library: %s" % (jobname, st))
    if st in ("FAIL", "CRASH", "HANG"):
        print("VIOLATION property=%s replay=%s" % (pid, path))
        return 1
    return 0
