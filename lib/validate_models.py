#!/usr/bin/env python3
"""Model validation: the specification models (models/*.c) are compiled natively with the
bit-serial NLFSR and pushed through the repository's own KAT files, and compared with the
natively built real library on seeded random inputs (HKDF / PBKDF2 / DRBG have no KAT file)."""
import os, subprocess, sys, tempfile, shutil
sys.path.insert(0, os.path.dirname(os.path.abspath(__file__)))
import driver as D

def main():
    d = tempfile.mkdtemp(prefix="tjverif-val-")
    try:
        exe = os.path.join(d, "vk")
        subprocess.check_call(["gcc", "-O2", "-w", "-I" + D.MODELS, "-o", exe,
                               os.path.join(D.MODELS, "validate_kat.c"), os.path.join(D.MODELS, "tj_spec.c"),
                               os.path.join(D.MODELS, "kdf_spec.c")])
        kat = os.path.join(D.REPO, "test/kat")
        ok = True
        for ks in (128, 192, 256):
            ok &= subprocess.call([exe, "aead", str(ks), "%s/TinyJAMBU-%d.txt" % (kat, ks)]) == 0
            ok &= subprocess.call([exe, "siv", str(ks), "%s/TinyJAMBU-%d-SIV.txt" % (kat, ks)]) == 0
        ok &= subprocess.call([exe, "hash", kat + "/TinyJAMBU-HASH.txt"]) == 0
        ok &= subprocess.call([exe, "hmac", kat + "/TinyJAMBU-HMAC.txt"]) == 0
        # HKDF / PBKDF2 / HMAC / Hash_DRBG oracles vs the natively built real library (seeded random inputs)
        exe2 = os.path.join(d, "vkdf")
        libsrc = [os.path.join(D.SRC, f) for f in ("tinyjambu-hash.c", "tinyjambu-hmac.c", "tinyjambu-hkdf.c", "tinyjambu-pbkdf2.c",
                                                    "tinyjambu-prng.c", "backend/tinyjambu-clean.c", "backend/tinyjambu-256-c32.c",
                                                    "random/tinyjambu-trng-dev-random.c")]
        subprocess.check_call(["gcc", "-O2", "-w", "-DHAVE_CONFIG_H", "-I" + D.config_dir("default"), "-I" + D.SRC, "-I" + D.MODELS, "-o", exe2,
                               os.path.join(D.MODELS, "validate_kdf.c"), os.path.join(D.MODELS, "tj_spec.c"),
                               os.path.join(D.MODELS, "kdf_spec.c")] + libsrc)
        ok &= subprocess.call([exe2]) == 0
        print("model validation:", "ok" if ok else "FAILED")
        return 0 if ok else 1
    finally:
        shutil.rmtree(d, ignore_errors=True)

if __name__ == "__main__":
    sys.exit(main())
