#!/usr/bin/env python3
"""Adds to every seeded/<name>/meta.json what was run and which check reports the change (from result-*.txt)."""
import glob, json, os, re
V = os.path.dirname(os.path.dirname(os.path.abspath(__file__)))
NOTES = {
 "C02-b": "NOT detected: needs an associated-data length >= 2^32 bytes; outside every shape window and outside the length probe (no narrowing conversion: `size & ~3U` zero-extends a 32-bit mask). Recorded as a known limit in DESIGN.md 13.",
 "C14-a": "first missed (whole-function queries used 5-byte passwords only); whole-function shapes with password lengths 63/64/65 added.",
 "C04-a": "first missed (check_tag lengths stopped at 40 / 1000); lengths 255..257, 1023..1025 (thorough to 262147) added.",
 "C09-a": "first missed in the quick tier (window stopped at 9 bytes); shapes 33..259 bytes added to the quick window.",
 "C06-a": "first INCONCLUSIVE (native replay build broken by a macro collision -DK vs an identifier in models/tj_spec.c); macro renamed, native harness self-test added to setup.",
 "C20-a": "first INCONCLUSIVE (no native sources for the non-default configurations); fixed.",
 "C07-a": "first INCONCLUSIVE (CBMC branch-trace self-composition timed out on the secret-dependent loop); E3 added as the deciding engine for C07.",
 "C08-a": "first INCONCLUSIVE (counterexamples needing a real tag collision were replayed first); check_tag real-code queries added to C08 and replay order changed (smallest shapes, functional assertions first).",
 "C10-a": "first missed (CBMC object bases are word aligned, so the unaligned fast path was never executed); -DVERIF_ALIGN=1..3 variants added.",
 "C19-a": "first missed (symbol-table location parsed wrongly; history queries compared two calls on identical data); structural parse fixed, reused-buffer history queries against the model added.",
 "C01-b": "first missed (needs >= 256 KiB); symbolic-length truncation probes added.",
 "C04-b": "first INCONCLUSIVE (alignment-dependent clearing); VERIF_ALIGN variants for check_tag / decrypt added, replay order prefers functional assertions.",
 "C12-b": "detected after adding the output-over-key (out == key) variants.",
 "C13-b": "detected after adding expand requests of 256..260 bytes (8-bit length arithmetic).",
 "C18-b": "detected after lengthening the symbolic fault script from 8 to 20 (thorough 48); a retry cap above the script length stays outside the bound.",
 "C20-b": "first INCONCLUSIVE (64-bit array inputs were truncated to bytes in replay files); fixed.",
}
for d in sorted(glob.glob(os.path.join(V, "seeded", "*", ""))):
    name = os.path.basename(os.path.dirname(d))
    mp = os.path.join(d, "meta.json")
    try:
        meta = json.load(open(mp))
    except Exception:
        meta = {"property": name.split("-")[0]}
    ran = ["scratch worktree: cmake + ctest (22/22 entries pass with the change), run_demo.sh with the change (exit 1) and without it (exit 0)"]
    checks = []
    for r in sorted(glob.glob(os.path.join(d, "result-*.txt"))):
        txt = open(r).read()
        prop = re.search(r"result-(\w+)\.txt", r).group(1)
        nviol = len(re.findall(r"^VIOLATION property=", txt, re.M))
        first = re.search(r"^  failed query (\S+): (.*?);", txt, re.M)
        ran.append("git -C /repo apply patch.diff; ./check %s --tier quick; git -C /repo checkout -- ." % prop)
        checks.append({"check": prop, "tier": "quick", "detected": nviol > 0, "violation_lines": nviol,
                       "first_failed_query": first.group(1) if first else None, "assertion": first.group(2)[:200] if first else None,
                       "summary_line": txt.strip().splitlines()[-1] if txt.strip() else ""})
    meta["what_was_run"] = ran
    meta["detected_by"] = checks
    if name in NOTES:
        meta["note"] = NOTES[name]
    json.dump(meta, open(mp, "w"), indent=1)
print("annotated")
