#!/usr/bin/env python3
"""Runs ctcheck.py over a spread of shapes and prints a status / timing table.
Usage: sweep.py [--repo PATH] [--opt O2] [--quick] [--vectorize] [-j N]"""
import argparse
import concurrent.futures
import json
import os
import subprocess
import sys

HERE = os.path.dirname(os.path.abspath(__file__))
L = (0, 1, 3, 4, 5, 9, 17)


def runs(quick):
    r = []
    for api in ('aead-enc', 'aead-dec', 'siv-enc', 'siv-dec'):
        for ks in (128, 192, 256):
            for ad in L:
                for m in L:
                    if not quick or (ad + m + ks // 64) % 5 == 0:
                        r.append((api, 'ks=%d,ad=%d,m=%d' % (ks, ad, m), 'default'))
    r += [('checktag', 'p=%d' % p, 'default') for p in (0, 1, 9)]
    r += [('perm', 'ks=%d,rounds=%d' % (ks, n), 'default') for ks in (128, 192, 256) for n in (1, 5, 8, 10, 20)]
    for n in (0, 1, 15, 16, 17, 33, 70):
        r.append(('hash-oneshot', 'n=%d' % n, 'default'))
        r += [('hash', 'n=%d,c1=%d' % (n, c), 'default') for c in sorted({0, n // 3, n})]
    for k in (0, 5, 64, 65, 100):
        for m in (0, 7, 40):
            r.append(('hmac', 'k=%d,m=%d' % (k, m), 'default'))
            r.append(('hmac-stream', 'k=%d,m=%d,c1=%d' % (k, m, m // 2), 'default'))
    r += [('hkdf', 'k=%d,s=%d,i=%d,out=%d' % t, 'default') for t in ((16, 0, 0, 0), (16, 8, 4, 1), (32, 16, 10, 32), (5, 70, 3, 45), (16, 8, 4, 100))]
    r += [('hkdf-stream', 'k=16,s=8,i=4,e1=%d,e2=%d' % t, 'default') for t in ((0, 0), (10, 10), (32, 1), (40, 30), (5, 64))]
    r += [('pbkdf2', 'pw=%d,s=%d,out=%d,count=%d' % t, 'default') for t in ((0, 0, 0, 1), (8, 8, 32, 1), (8, 8, 20, 2), (70, 16, 40, 3), (10, 4, 64, 5))]
    r += [('prng', 'size=%d,ctr=%d,limit=%d,k=%d,feed=%d' % t, 'default') for t in
          ((0, 1, 32, 32, 0), (1, 1, 32, 32, 0), (32, 1, 32, 32, 7), (70, 1, 32, 32, 0), (70, 32, 32, 32, 20), (40, 33, 32, 32, 0),
           (40, 33, 32, 16, 0), (40, 40, 0, 0, 3), (100, 4294967295, 32, 32, 1))]
    r += [('prng-init', 'custom=%d,k=%d' % t, 'default') for t in ((0, 32), (10, 32), (40, 8))]
    r += [('clean', 'n=%d,off=%d' % t, c) for t in ((0, 0), (1, 0), (16, 3), (56, 1), (96, 0)) for c in ('default', 'volatile')]
    r += [('hmac', 'k=5,m=3', 'volatile'), ('hash-oneshot', 'n=17', 'volatile'), ('prng', 'size=40,ctr=33,limit=32,k=32,feed=3', 'volatile')]
    return r


def one(a, api, shape, config):
    cmd = [sys.executable, os.path.join(HERE, 'ctcheck.py'), '--api', api, '--shape', shape, '--config', config, '--repo', a.repo,
           '--opt', a.opt, '--expect-wipes'] + (['--vectorize'] if a.vectorize else [])
    out = subprocess.run(cmd, capture_output=True, text=True).stdout
    ln = [x for x in out.splitlines() if x.startswith('RESULT ')]
    return (api, shape, config), json.loads(ln[0][7:]) if ln else {'status': 'CRASH', 'failed': [], 'why': out[-300:]}


def main():
    ap = argparse.ArgumentParser()
    ap.add_argument('--repo', default='/repo')
    ap.add_argument('--opt', default='O2')
    ap.add_argument('--quick', action='store_true')
    ap.add_argument('--vectorize', action='store_true')
    ap.add_argument('-j', type=int, default=os.cpu_count() or 2)
    a = ap.parse_args()
    agg, bad = {}, []
    with concurrent.futures.ThreadPoolExecutor(a.j) as ex:
        for (api, shape, config), r in ex.map(lambda t: one(a, *t), runs(a.quick)):
            g = agg.setdefault((api, config), dict(n=0, ok=0, steps=0, t=0.0, tmax=0.0, props=0, sel=0, q=0, worst=''))
            g['n'] += 1
            g['ok'] += r['status'] == 'PASS'
            g['steps'] = max(g['steps'], r.get('steps', 0))
            g['props'] += r.get('nprops', 0)
            g['q'] += r.get('queries', 0)
            g['sel'] += r.get('secret_selects', {}).get('count', 0)
            g['t'] += r.get('total_s', 0)
            if r.get('total_s', 0) >= g['tmax']:
                g['tmax'], g['worst'] = r.get('total_s', 0), shape
            if r['status'] != 'PASS':
                bad.append((api, shape, config, r['status'], r['failed'], r.get('why')))
    print('%-13s %-8s %5s %5s %10s %9s %8s %8s %7s %5s  %s' % ('api', 'config', 'runs', 'pass', 'max steps', 'nprops', 'mean s', 'max s', 'queries', 'sel', 'slowest shape'))
    for (api, config), g in sorted(agg.items()):
        print('%-13s %-8s %5d %5d %10d %9d %8.2f %8.2f %7d %5d  %s' % (api, config, g['n'], g['ok'], g['steps'], g['props'], g['t'] / g['n'], g['tmax'], g['q'], g['sel'], g['worst']))
    for b in bad:
        print('NOT PASS:', b)
    print('SWEEP %s: %d runs, %d not PASS (opt %s%s)' % ('OK' if not bad else 'FAILED', sum(g['n'] for g in agg.values()), len(bad), a.opt, ', vectorize' if a.vectorize else ''))
    return 1 if bad else 0


if __name__ == '__main__':
    sys.exit(main())
