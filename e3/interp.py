"""E3: single-path (concolic) interpreter for the LLVM IR subset parsed by llir.py.

PUBLIC values are Python ints, SECRET-derived values are z3 bit-vector terms, pointers are
(object, concrete offset).  Control flow, addresses, lengths, shift amounts and divisors must be
provably independent of the secrets; otherwise the run FAILs with two witnesses.
"""
import random
import time
import z3

z3.set_param('memory_max_size', 6000)      # MB; exceeding it gives INCONCLUSIVE instead of swapping

ONE1, ZERO1 = z3.BitVecVal(1, 1), z3.BitVecVal(0, 1)


class Fail(Exception):
    def __init__(self, sid, desc, wa=None, wb=None, where=None):
        Exception.__init__(self, desc)
        self.sid, self.desc, self.wa, self.wb, self.where = sid, desc, wa, wb, where


class Inconclusive(Exception):
    pass


class Obj:
    __slots__ = ('name', 'kind', 'size', 'align', 'data', 'alive', 'base')

    def __init__(self, name, kind, size, align, data=None):
        self.name, self.kind, self.size, self.align, self.alive = name, kind, size, align, True
        self.data = data if data is not None else [None] * size


class Ptr:
    __slots__ = ('obj', 'off')

    def __init__(self, obj, off):
        self.obj, self.off = obj, off

    def __repr__(self):
        return '&%s+%d' % (self.obj.name if self.obj else 'abs', self.off)


class PInt(Ptr):
    """Integer obtained by ptrtoint; only pointer-like arithmetic is allowed on it."""
    __slots__ = ()


NULL = Ptr(None, 0)


class Frame:
    __slots__ = ('fn', 'mod', 'regs', 'allocas')


def isz(v):
    return isinstance(v, z3.ExprRef)


def tz(v, w):
    return v if isz(v) else z3.BitVecVal(v, w)


def sgn(v, w):
    return v - (1 << w) if v >> (w - 1) else v


class Interp:
    def __init__(self, mods, symbolic=True, inputs=None, deadline=None, trace=False, seeds=()):
        self.funcs, self.gdefs = {}, {}
        for m in mods:
            self.funcs.update(m.funcs)
            for g, d in m.globals.items():
                if d[1] is not None or g not in self.gdefs:
                    self.gdefs[g] = (m,) + d
        self.symbolic, self.inputs, self.deadline = symbolic, inputs or {}, deadline
        self.trace = [] if trace else None
        self.pyfuncs, self.gobj, self.stack, self.failed, self.wipes = {}, {}, [], [], []
        self.secret_bufs, self.nobj, self.samples = {}, 0, 0
        self.seeds, self.rng = list(seeds), random.Random(20261004)
        self.models = [z3.Model() for _ in range(6 + len(self.seeds))]
        self.steps = self.queries = self.nprops = self.pub_br = self.n_const = self.layout_cmp = 0
        self.solver_s = 0.0
        self.sel, self.fexec, self.seen_mis = {}, set(), set()
        self.H = {k[2:]: getattr(self, k) for k in dir(self) if k.startswith('h_')}
        for k in ('add', 'sub', 'mul', 'and', 'or', 'xor', 'shl', 'lshr', 'ashr', 'udiv', 'sdiv', 'urem', 'srem'):
            self.H[k] = self.h_bin
        for k in ('zext', 'sext', 'trunc', 'bitcast', 'ptrtoint', 'inttoptr', 'freeze'):
            self.H[k] = self.h_cast
        self.ext = {'memcpy': self.x_memcpy, 'memmove': self.x_memcpy, 'memset': self.x_memset,
                    'explicit_bzero': self.x_bzero, 'getrandom': self.x_getrandom}

    # ---------------------------------------------------------------- objects, secrets
    def new_obj(self, name, kind, size, align, data=None):
        self.nobj += 1
        o = Obj('%s#%d' % (name, self.nobj), kind, size, align, data)
        o.base = self.nobj << 20
        return o

    def secret(self, name, n):
        """n fresh secret bytes (z3 variables, or concrete bytes from self.inputs in concrete mode)."""
        if self.symbolic:
            vs = [z3.BitVec('%s[%d]' % (name, i), 8) for i in range(n)]
            self.secret_bufs[name] = vs
            for j, m in enumerate(self.models):     # sample assignments: all-zero, all-ones, random, driver seeds
                sd = self.seeds[j - 6].get(name, b'') if j >= 6 else b''
                for i, x in enumerate(vs):
                    m.update_value(x, z3.BitVecVal(sd[i] if i < len(sd) else 0 if j == 0 else 255 if j == 1 else self.rng.randrange(256), 8))
            return [(v, 0) for v in vs]
        d = self.inputs.get(name, b'')
        return [d[i] if i < len(d) else 0 for i in range(n)]

    def gptr(self, name):
        o = self.gobj.get(name)
        if o is None:
            if name in self.gdefs:
                mod, ty, init, al = self.gdefs[name]
                if init is None:
                    raise Inconclusive('external global @' + name)
                o = self.new_obj('@' + name, 'global', mod.sizeof(ty), al or mod.layout(ty)[1])
                self.gobj[name] = o
                o.data = self.enc(ty, self.val_const(init, mod), mod)
            else:
                o = self.gobj[name] = Obj('@' + name, 'func', 0, 1, name)
        return Ptr(o, 0)

    # ---------------------------------------------------------------- values
    def val(self, o, fr):
        k = o[0]
        if k == 'r':
            return fr.regs[o[1]]
        if k == 'c':
            return o[1]
        return self.val_const(o, fr.mod, fr)

    def val_const(self, o, mod, fr=None):
        k = o[0]
        if k == 'c':
            return o[1]
        if k == 'r':
            return fr.regs[o[1]]
        if k == 'null':
            return NULL
        if k == 'g':
            return self.gptr(o[1])
        if k == 'undef':
            return None
        if k == 'zero':
            t = mod.resolve(o[1])
            if t[0] == 'i':
                return 0
            if t[0] == 'ptr':
                return NULL
            if t[0] in ('vec', 'arr'):
                return [self.val_const(('zero', t[2]), mod)] * t[1]
            if t[0] == 'st':
                return [self.val_const(('zero', f), mod) for f in t[1]]
        if k == 'agg':
            return [self.val_const(v, mod, fr) for _, v in o[1]]
        if k == 'ce':
            return self.cast(o[1], o[2], o[4], self.val_const(o[3], mod, fr), None, mod)
        if k == 'gep':
            base = self.val_const(o[2], mod, fr)
            f = Frame()
            f.mod, f.regs = mod, fr.regs if fr else {}
            return Ptr(base.obj, base.off + self.gep_off(o[1], o[3], f, None)[0])
        raise Inconclusive('unsupported constant %r' % (o,))

    def enc(self, ty, v, mod):
        """value -> list of byte entries (int | (term, byte index) | None)."""
        t = mod.resolve(ty)
        k = t[0]
        if k in ('i', 'ptr'):
            n = 8 if k == 'ptr' else (t[1] + 7) // 8
            if v is None:
                return [None] * n
            if isinstance(v, Ptr):
                if v.obj is None:
                    v = v.off & (2 ** 64 - 1)
                elif n == 8:
                    return [(v, i) for i in range(8)]
                else:
                    raise self.pint_fail(v, None)
            if type(v) is int:
                return list(v.to_bytes(n, 'little'))
            if v.size() != 8 * n:
                v = z3.ZeroExt(8 * n - v.size(), v)
            return [(v, i) for i in range(n)]
        if k in ('vec', 'arr'):
            if v is None:
                return [None] * mod.sizeof(t)
            out = []
            for e in v:
                out += self.enc(t[2], e, mod)
            return out + [None] * (mod.sizeof(t) - len(out))
        if k == 'st' and isinstance(v, list):
            out, offs = [], mod.layout(t)[2]
            for f, e, o in zip(t[1], v, offs):
                out += [0] * (o - len(out)) + self.enc(f, e, mod)
            return out + [0] * (mod.sizeof(t) - len(out))
        raise Inconclusive('cannot encode value of type %r' % (ty,))

    def byte_term(self, b):
        if type(b) is int:
            return b
        if b is None:
            raise Inconclusive('read of uninitialised memory')
        t, i = b
        if isinstance(t, Ptr):
            raise Inconclusive('pointer bytes read as data')
        return t if t.size() == 8 else z3.Extract(8 * i + 7, 8 * i, t)

    def dec(self, ty, bs, mod):
        t = mod.resolve(ty)
        k = t[0]
        if k in ('i', 'ptr'):
            n = len(bs)
            b0 = bs[0]
            if type(b0) is tuple and b0[1] == 0:
                v = b0[0]
                if all(type(b) is tuple and b[0] is v and b[1] == i for i, b in enumerate(bs)):
                    if isinstance(v, Ptr):
                        if n == 8:
                            return Ptr(v.obj, v.off) if k == 'ptr' else v
                    elif k == 'ptr':
                        return Ptr(None, self.concretise(v, 'secret-address', None))
                    elif v.size() == 8 * n:
                        return v if t[1] == 8 * n else z3.Extract(t[1] - 1, 0, v)
            parts, acc, nacc = [], 0, 0      # little endian -> build from the top byte down
            for b in reversed(bs):
                b = self.byte_term(b)
                if type(b) is int:
                    acc, nacc = (acc << 8) | b, nacc + 1
                else:
                    if nacc:
                        parts.append(z3.BitVecVal(acc, 8 * nacc))
                        acc = nacc = 0
                    parts.append(b)
            if not parts:
                return Ptr(None, acc) if k == 'ptr' else acc & ((1 << t[1]) - 1)
            if k == 'ptr':
                raise Fail('secret-address', 'pointer loaded from secret-dependent bytes')
            if nacc:
                parts.append(z3.BitVecVal(acc, 8 * nacc))
            v = parts[0] if len(parts) == 1 else z3.Concat(*parts)
            return v if t[1] == 8 * n else z3.Extract(t[1] - 1, 0, v)
        if k in ('vec', 'arr'):
            s = self.ssize(t[2], mod)
            return [self.dec(t[2], bs[i * s:(i + 1) * s], mod) for i in range(t[1])]
        raise Inconclusive('cannot decode value of type %r' % (ty,))

    def ssize(self, ty, mod):
        t = mod.resolve(ty)
        if t[0] == 'i':
            return (t[1] + 7) // 8
        if t[0] == 'vec':
            return t[1] * self.ssize(t[2], mod)
        return mod.sizeof(t)

    # ---------------------------------------------------------------- deciding secrets
    def where(self, ins):
        return 'in @%s: %s' % (self.stack[-1] if self.stack else '?', ins.text if ins else '?')

    def witness(self, m):
        return {b: bytes(m.eval(v, model_completion=True).as_long() for v in vs).hex()
                for b, vs in self.secret_bufs.items()}

    def check(self, sol, e, limit=None):
        """True/False = sat/unsat; with a time limit (seconds) None = gave up, without one that is INCONCLUSIVE."""
        self.queries += 1
        left = self.deadline - time.time() if self.deadline else 3600
        sol.set('timeout', max(1000, int(min(left, limit or left) * 1000)))
        t = time.time()
        try:
            r = sol.check(e)
        except z3.Z3Exception as x:
            raise Inconclusive('solver failure: %s' % x)
        finally:
            self.solver_s += time.time() - t
        if r == z3.unknown:
            if limit:
                return None
            raise Inconclusive('solver returned unknown (%s)' % sol.reason_unknown())
        return r == z3.sat

    def directed(self, v, const):
        """Witness search for rare events (e.g. tag equality): free only the secret bytes nearest to the root of
        the term (1, 2, 4, ... of them), fix all others to a sample assignment, simplify, and solve the small rest."""
        ids = {x.get_id(): x for vs in self.secret_bufs.values() for x in vs}
        order, seen, frontier = [], set(), [v]
        while frontier and len(seen) < 30000 and len(order) < 64:
            nxt = []
            for t in frontier:
                i = t.get_id()
                if i not in seen:
                    seen.add(i)
                    if i in ids:
                        order.append(ids[i])
                    else:
                        nxt.extend(t.children())
            frontier = nxt
        for base in self.models[2:4]:
            n = 1
            while n < 2 * len(order):
                free = set(x.get_id() for x in order[:n])
                r = z3.simplify(z3.substitute(v, *[(x, base.eval(x, model_completion=True)) for i, x in ids.items() if i not in free]))
                sol = z3.Solver()
                if not z3.is_bv_value(r) and self.check(sol, r != const, limit=10):
                    m, w = sol.model(), z3.Model()
                    for i, x in ids.items():
                        w.update_value(x, (m if i in free else base).eval(x, model_completion=True))
                    return w
                n *= 2
        return None

    def concretise(self, v, kind, ins):
        """v must not depend on the secrets: returns its constant value or raises Fail(kind)."""
        if type(v) is int:
            return v
        if v is None:
            raise Inconclusive('undef used as %s %s' % (kind, self.where(ins)))
        if isinstance(v, Ptr):
            raise self.pint_fail(v, ins)
        self.nprops += 1
        seen = {}                       # 1. cheap: evaluate under the sample assignments of the secrets
        for m in self.models:
            self.samples += 1
            seen.setdefault(m.eval(v, model_completion=True).as_long(), m)
            if len(seen) == 2:
                break
        (const, ma), mb = sorted(seen.items(), key=lambda kv: kv[0] != 0)[0], None
        if len(seen) == 2:
            mb = [m for c, m in seen.items() if c != const][0]
        else:   # 2. all samples agree: quick solver attempt (2 s), more random samples (3 s), directed witness
            sol = z3.Solver()           # search for rare events, and finally the unbounded proof of constancy
            r = self.check(sol, v != const, limit=2)
            if r:
                mb = sol.model()
            t0, xs = time.time(), [x for vs in self.secret_bufs.values() for x in vs]
            while r is None and mb is None and time.time() - t0 < 3:
                m = z3.Model()
                for x in xs:
                    m.update_value(x, z3.BitVecVal(self.rng.randrange(256), 8))
                self.samples += 1
                if m.eval(v, model_completion=True).as_long() != const:
                    mb = m
            if r is None and mb is None:
                mb = self.directed(v, const)
            if r is None and mb is None and self.check(sol, v != const):
                mb = sol.model()
        if mb is not None:
            if v.size() == 1 and const == 0:
                ma, mb = mb, ma         # witness_a takes the branch, witness_b does not
            raise Fail(kind, '%s %s' % (kind, self.where(ins)), self.witness(ma), self.witness(mb), self.where(ins))
        self.n_const += 1
        return const

    def pint_fail(self, p, ins):
        if p.obj is not None and p.obj.kind == 'caller':
            return Fail('alignment-dependent', 'address of caller buffer %s used as data %s' % (p.obj.name, self.where(ins)))
        return Inconclusive('integer use of a pointer ' + self.where(ins))

    # ---------------------------------------------------------------- memory
    def ptr(self, v, ins):
        if isinstance(v, Ptr):
            return v
        if v is None:
            raise Inconclusive('undef pointer ' + self.where(ins))
        return Ptr(None, self.concretise(v, 'secret-address', ins))

    def access(self, p, n, align, ins, rw):
        o = p.obj
        self.nprops += 2
        if o is None or o.kind == 'func' or not o.alive or p.off < 0 or p.off + n > o.size:
            raise Fail('out-of-bounds', '%s of %d bytes at %r (size %s, %s) %s' % (
                'write' if rw == 'w' else 'read', n, p, o.size if o else '-',
                'live' if o and o.alive else 'dead/NULL', self.where(ins)))
        if align and align > 1 and (o.align % align or p.off % align):
            key = (self.stack[-1], ins.text)
            if key not in self.seen_mis:
                self.seen_mis.add(key)
                self.failed.append(['misaligned-access', 'align %d access at %r (object alignment %d, kind %s) %s' % (
                    align, p, o.align, o.kind, self.where(ins))])
        if self.trace is not None:
            self.trace.append(('mem', rw, o.name, p.off, n))

    def copy(self, d, s, n, ins, als=(None, None)):
        n = self.concretise(n, 'secret-length', ins)
        if n:
            d, s = self.ptr(d, ins), self.ptr(s, ins)
            self.access(s, n, als[1], ins, 'r')
            self.access(d, n, als[0], ins, 'w')
            d.obj.data[d.off:d.off + n] = s.obj.data[s.off:s.off + n]

    def fill(self, d, c, n, ins, al=None):
        n = self.concretise(n, 'secret-length', ins)
        if n:
            d = self.ptr(d, ins)
            self.access(d, n, al, ins, 'w')
            if isz(c) and c.size() != 8:
                c = z3.Extract(7, 0, c)
            d.obj.data[d.off:d.off + n] = [c & 255 if type(c) is int else (c, 0)] * n

    def x_memcpy(self, a, ins, als):
        self.copy(a[0], a[1], a[2], ins)
        return a[0]

    def x_memset(self, a, ins, als):
        self.fill(a[0], a[1], a[2], ins)
        return a[0]

    def x_bzero(self, a, ins, als):
        n = self.concretise(a[1], 'secret-length', ins)
        if self.stack[-1] != 'tinyjambu_clean':
            self.record_wipe(self.stack[-1], self.ptr(a[0], ins), n)
        self.fill(a[0], 0, n, ins)
        return 0

    def x_getrandom(self, a, ins, als):
        n = self.concretise(a[1], 'secret-length', ins)
        p = self.ptr(a[0], ins)
        self.access(p, n, None, ins, 'w')
        self.rnd = getattr(self, 'rnd', 0) + 1
        p.obj.data[p.off:p.off + n] = self.secret('getrandom%d' % self.rnd, n)
        return n

    def record_wipe(self, caller, p, n):
        w = {'caller': caller, 'kind': p.obj.kind if p.obj else 'null', 'object': p.obj.name if p.obj else 'null',
             'offset': p.off, 'size': n, 'whole_object': bool(p.obj and p.off == 0 and n == p.obj.size)}
        self.wipes.append(w)
        return w

    # ---------------------------------------------------------------- scalar operations
    def binop(self, op, w, a, b, ins):
        ta, tb = type(a), type(b)
        if ta is int and tb is int:
            m = (1 << w) - 1
            if op == 'add':
                return (a + b) & m
            if op == 'sub':
                return (a - b) & m
            if op == 'mul':
                return (a * b) & m
            if op == 'and':
                return a & b
            if op == 'or':
                return a | b
            if op == 'xor':
                return a ^ b
            if op == 'shl':
                return (a << b) & m if b < w else 0
            if op == 'lshr':
                return a >> b if b < w else 0
            if op == 'ashr':
                return (sgn(a, w) >> min(b, w - 1)) & m
            if b == 0:
                raise Fail('division-by-zero', 'division by zero ' + self.where(ins))
            if op == 'udiv':
                return a // b
            if op == 'urem':
                return a % b
            sa, sb = sgn(a, w), sgn(b, w)
            q = abs(sa) // abs(sb) * (1 if (sa < 0) == (sb < 0) else -1)
            return (q if op == 'sdiv' else sa - q * sb) & m
        if a is None or b is None:
            raise Inconclusive('arithmetic on undef ' + self.where(ins))
        if isinstance(a, Ptr) or isinstance(b, Ptr):
            if ta is PInt and tb is int and op in ('add', 'sub'):
                return PInt(a.obj, a.off + (sgn(b, w) if op == 'add' else -sgn(b, w)))
            if ta is int and tb is PInt and op == 'add':
                return PInt(b.obj, b.off + sgn(a, w))
            if ta is PInt and tb is PInt and op == 'sub' and a.obj is b.obj:
                return (a.off - b.off) & ((1 << w) - 1)
            if ta is PInt and tb is int and op == 'and' and a.obj and a.obj.kind != 'caller' and b < a.obj.align:
                return a.off & b
            raise self.pint_fail(a if isinstance(a, Ptr) else b, ins)
        if op in ('shl', 'lshr', 'ashr') and tb is not int:
            return self.binop(op, w, a, self.concretise(b, 'secret-shift', ins), ins)
        if op in ('udiv', 'sdiv', 'urem', 'srem'):
            return self.binop(op, w, self.concretise(a, 'secret-division', ins), self.concretise(b, 'secret-division', ins), ins)
        if op == 'add':
            return a + b
        if op == 'sub':
            return a - b
        if op == 'mul':
            return a * b
        if op == 'and':
            return a & b
        if op == 'or':
            return a | b
        if op == 'xor':
            return a ^ b
        if b >= w:
            return 0 if op != 'ashr' else self.binop(op, w, a, w - 1, ins)
        if op == 'shl':
            return a << b
        return z3.LShR(a, b) if op == 'lshr' else a >> b

    def icmp(self, pred, w, a, b, ins):
        ta, tb = type(a), type(b)
        if ta is int and tb is int:
            if pred[0] == 's':
                a, b = sgn(a, w), sgn(b, w)
            p = pred[-2:]
            return int(a == b if pred == 'eq' else a != b if pred == 'ne' else a < b if p == 'lt' else
                       a <= b if p == 'le' else a > b if p == 'gt' else a >= b)
        if a is None or b is None:
            raise Inconclusive('comparison of undef ' + self.where(ins))
        if isinstance(a, Ptr) or isinstance(b, Ptr):
            if ta is int:
                a = type(b)(None, a)
            if tb is int:
                b = type(a)(None, b)
            if isinstance(a, Ptr) and isinstance(b, Ptr):
                if pred in ('eq', 'ne'):
                    return int(((a.obj is b.obj) and a.off == b.off) == (pred == 'eq'))
                if a.obj is b.obj and a.obj is not None:
                    return self.icmp(pred, 64, a.off & (2 ** 64 - 1), b.off & (2 ** 64 - 1), ins)
                if a.obj is not None and b.obj is not None and 'func' not in (a.obj.kind, b.obj.kind):
                    # relational compare of pointers into DIFFERENT objects (vectoriser overlap checks): the layout is
                    # public; one consistent non-overlapping layout (creation order, 1 MiB apart) is explored
                    self.layout_cmp += 1
                    return self.icmp(pred, 64, a.obj.base + a.off, b.obj.base + b.off, ins)
            raise self.pint_fail(a if isinstance(a, Ptr) else b, ins)
        if pred == 'eq':
            e = a == b
        elif pred == 'ne':
            e = a != b
        else:
            a, b = tz(a, w), tz(b, w)
            e = {'ult': z3.ULT, 'ule': z3.ULE, 'ugt': z3.UGT, 'uge': z3.UGE, 'slt': lambda x, y: x < y,
                 'sle': lambda x, y: x <= y, 'sgt': lambda x, y: x > y, 'sge': lambda x, y: x >= y}[pred](a, b)
        return z3.If(e, ONE1, ZERO1)

    def cast(self, op, sty, dty, v, ins, mod):
        s, d = mod.resolve(sty), mod.resolve(dty)
        if d[0] == 'vec' and s[0] == 'vec' and op != 'bitcast':
            return [self.cast(op, s[2], d[2], e, ins, mod) for e in v]
        if op == 'freeze' or (op == 'bitcast' and s[0] == d[0] == 'ptr'):
            return v
        if op == 'bitcast':
            return self.dec(d, self.enc(s, v, mod), mod)
        if v is None:
            return None
        if op == 'ptrtoint':
            return v.off if v.obj is None else PInt(v.obj, v.off)
        if op == 'inttoptr':
            return Ptr(v.obj, v.off) if isinstance(v, Ptr) else Ptr(None, self.concretise(v, 'secret-address', ins))
        if isinstance(v, Ptr):
            raise self.pint_fail(v, ins)
        sw, dw = s[1], d[1]
        if op == 'zext':
            return v if type(v) is int else z3.ZeroExt(dw - sw, v)
        if op == 'sext':
            return sgn(v, sw) & ((1 << dw) - 1) if type(v) is int else z3.SignExt(dw - sw, v)
        if op == 'trunc':
            return v & ((1 << dw) - 1) if type(v) is int else z3.Extract(dw - 1, 0, v)
        raise Inconclusive('unsupported cast ' + self.where(ins))

    def gep_off(self, ety, idx, fr, ins):
        mod, ty, off, const = fr.mod, ety, 0, True
        for k, (ity, iv) in enumerate(idx):
            if iv[0] == 'c':
                v = iv[1]
            else:
                const = False
                v = self.concretise(self.val(iv, fr), 'secret-address', ins)
            v = sgn(v, ity[1])
            if k == 0:
                off += v * mod.sizeof(ty)
                continue
            t = mod.resolve(ty)
            if t[0] == 'st':
                off += mod.layout(t)[2][v]
                ty = t[1][v]
            elif t[0] in ('arr', 'vec'):
                ty = t[2]
                off += v * mod.sizeof(ty)
            else:
                raise Inconclusive('getelementptr into scalar ' + self.where(ins))
        return off, const

    # ---------------------------------------------------------------- instruction handlers
    def h_bin(self, ins, fr):
        a, b, t = self.val(ins.a[0], fr), self.val(ins.a[1], fr), ins.ty
        if self.trace is not None and ins.a[1][0] != 'c' and ins.op in ('shl', 'lshr', 'ashr', 'udiv', 'sdiv', 'urem', 'srem'):
            self.trace.append(('operands', ins.op, self.stack[-1], a if ins.op[1:] in ('div', 'rem') else None, b))
        if t[0] == 'vec':
            fr.regs[ins.dest] = [self.binop(ins.op, t[2][1], x, y, ins) for x, y in zip(a, b)]
        else:
            fr.regs[ins.dest] = self.binop(ins.op, t[1], a, b, ins)

    def h_icmp(self, ins, fr):
        a, b, t = self.val(ins.a[0], fr), self.val(ins.a[1], fr), ins.ty
        if t[0] == 'vec':
            fr.regs[ins.dest] = [self.icmp(ins.x, t[2][1] if t[2][0] == 'i' else 64, x, y, ins) for x, y in zip(a, b)]
        else:
            fr.regs[ins.dest] = self.icmp(ins.x, t[1] if t[0] == 'i' else 64, a, b, ins)

    def h_cast(self, ins, fr):
        fr.regs[ins.dest] = self.cast(ins.op, ins.x, ins.ty, self.val(ins.a[0], fr), ins, fr.mod)

    def select1(self, c, a, b, w, ins):
        if type(c) is int:
            return a if c else b
        if c is None:
            raise Inconclusive('select on undef ' + self.where(ins))
        if isinstance(a, Ptr) or isinstance(b, Ptr) or a is None or b is None:
            if isinstance(a, Ptr) and isinstance(b, Ptr) and a.obj is b.obj and a.off == b.off:
                return a
            return a if self.concretise(c, 'secret-address', ins) else b
        f = self.stack[-1]
        self.sel[f] = self.sel.get(f, 0) + 1
        return z3.If(c == 1, tz(a, w), tz(b, w))

    def h_select(self, ins, fr):
        c, a, b = (self.val(o, fr) for o in ins.a)
        t = fr.mod.resolve(ins.ty)
        if t[0] == 'vec':
            w = t[2][1] if t[2][0] == 'i' else 64
            cs = c if isinstance(c, list) else [c] * t[1]
            fr.regs[ins.dest] = [self.select1(ci, x, y, w, ins) for ci, x, y in zip(cs, a, b)]
        else:
            fr.regs[ins.dest] = self.select1(c, a, b, t[1] if t[0] == 'i' else 64, ins)

    def h_load(self, ins, fr):
        p = self.ptr(self.val(ins.a[0], fr), ins)
        n = self.ssize(ins.ty, fr.mod)
        self.access(p, n, ins.x, ins, 'r')
        fr.regs[ins.dest] = self.dec(ins.ty, p.obj.data[p.off:p.off + n], fr.mod)

    def h_store(self, ins, fr):
        p = self.ptr(self.val(ins.a[1], fr), ins)
        bs = self.enc(ins.ty, self.val(ins.a[0], fr), fr.mod)[:self.ssize(ins.ty, fr.mod)]
        self.access(p, len(bs), ins.x, ins, 'w')
        p.obj.data[p.off:p.off + len(bs)] = bs

    def h_alloca(self, ins, fr):
        n = self.concretise(self.val(ins.a[0], fr), 'secret-length', ins)
        o = self.new_obj('%s.%%%s' % (fr.fn.name, ins.dest), 'stack', fr.mod.sizeof(ins.ty) * n,
                         ins.x or fr.mod.layout(ins.ty)[1])
        fr.allocas.append(o)
        fr.regs[ins.dest] = Ptr(o, 0)

    def h_getelementptr(self, ins, fr):
        base = self.val(ins.a[0], fr)
        off = ins.cache
        if off is None:
            off, const = self.gep_off(ins.ty, ins.x, fr, ins)
            if const:
                ins.cache = off
        if not isinstance(base, Ptr) or type(base) is PInt:
            base = self.ptr(base, ins)
        fr.regs[ins.dest] = Ptr(base.obj, base.off + off)

    def h_br(self, ins, fr):
        if not ins.a:
            return ('j', ins.x[0])
        c = self.val(ins.a[0], fr)
        if type(c) is int:
            self.pub_br += 1
        else:
            c = self.concretise(c, 'secret-branch', ins)
        return ('j', ins.x[0] if c else ins.x[1])

    def h_switch(self, ins, fr):
        v = self.val(ins.a[0], fr)
        if type(v) is int:
            self.pub_br += 1
        else:
            v = self.concretise(v, 'secret-branch', ins)
        return ('j', ins.x[1].get(v, ins.x[0]))

    def h_ret(self, ins, fr):
        return ('r', self.val(ins.a[0], fr) if ins.a else None)

    def h_unreachable(self, ins, fr):
        raise Fail('unreachable', 'reached unreachable ' + self.where(ins))

    def h_nop(self, ins, fr):
        pass

    def h_unsupported(self, ins, fr):
        raise Inconclusive('unsupported instruction %s [%s]' % (self.where(ins), ins.x))

    def h_extractelement(self, ins, fr):
        v, i = self.val(ins.a[0], fr), self.concretise(self.val(ins.a[1], fr), 'secret-address', ins)
        fr.regs[ins.dest] = v[i]

    def h_insertelement(self, ins, fr):
        v, e, i = (self.val(o, fr) for o in ins.a)
        n = fr.mod.resolve(ins.ty)[1]
        v = list(v) if v is not None else [None] * n
        v[self.concretise(i, 'secret-address', ins)] = e
        fr.regs[ins.dest] = v

    def h_shufflevector(self, ins, fr):
        a, b, m = (self.val(o, fr) for o in ins.a)
        n = fr.mod.resolve(ins.ty)[1]
        ab = (list(a) if a is not None else [None] * n) + (list(b) if b is not None else [None] * n)
        fr.regs[ins.dest] = [None if i is None else ab[i] for i in m]

    def h_call(self, ins, fr):
        callee, tys, als = ins.x
        if callee[0] == 'g':
            name = callee[1]
        else:
            cv = self.val(callee, fr)
            if isz(cv):
                cv = Ptr(None, self.concretise(cv, 'secret-address', ins))
            if not (isinstance(cv, Ptr) and cv.obj is not None and cv.obj.kind == 'func' and cv.off == 0):
                raise Fail('out-of-bounds', 'call through invalid function pointer %r %s' % (cv, self.where(ins)))
            name = cv.obj.data
        args = [self.val(a, fr) for a in ins.a]
        if name.startswith('llvm.'):
            r = self.intrinsic(name, args, ins, fr, als)
        elif name in self.funcs:
            r = self.call(self.funcs[name], args)
        elif name in self.pyfuncs:
            r = self.pyfuncs[name](self, args, ins)
        elif name in self.ext:
            r = self.ext[name](args, ins, als)
        else:
            raise Inconclusive('external call @%s %s' % (name, self.where(ins)))
        if ins.dest is not None:
            fr.regs[ins.dest] = r

    def intrinsic(self, name, a, ins, fr, als):
        k = name.split('.')[1]
        if k in ('lifetime', 'assume', 'experimental', 'dbg', 'invariant'):
            return None
        if k in ('memcpy', 'memmove'):
            return self.copy(a[0], a[1], a[2], ins, als)
        if k == 'memset':
            return self.fill(a[0], a[1], a[2], ins, als[0])
        t = fr.mod.resolve(ins.ty)
        if t[0] == 'vec' and k != 'vector':
            return [self.intr1(k, t[2][1], [x[i] if isinstance(x, list) else x for x in a], ins) for i in range(t[1])]
        if k == 'vector' and name.split('.')[2] == 'reduce':
            op, r = name.split('.')[3], a[0][0]
            if op not in ('add', 'xor', 'or', 'and', 'mul'):
                raise Inconclusive('unsupported intrinsic @%s %s' % (name, self.where(ins)))
            for e in a[0][1:]:
                r = self.binop(op, t[1], r, e, ins)
            return r
        return self.intr1(k, t[1], a, ins)

    def intr1(self, k, w, a, ins):
        if any(x is None or isinstance(x, Ptr) for x in a):
            raise Inconclusive('intrinsic on undef/pointer ' + self.where(ins))
        if k in ('fshl', 'fshr'):
            c = self.concretise(a[2], 'secret-shift', ins) % w
            if c == 0:
                return a[0] if k == 'fshl' else a[1]
            if k == 'fshr':
                c = w - c
            return self.binop('or', w, self.binop('shl', w, a[0], c, ins), self.binop('lshr', w, a[1], w - c, ins), ins)
        if k == 'bswap':
            bs = [self.binop('and', w, self.binop('lshr', w, a[0], 8 * i, ins), 255, ins) for i in range(w // 8)]
            r = 0
            for i, b in enumerate(bs):
                r = self.binop('or', w, r, self.binop('shl', w, b, w - 8 - 8 * i, ins), ins)
            return r
        if k in ('umin', 'umax', 'smin', 'smax'):
            c = self.icmp({'umin': 'ult', 'umax': 'ugt', 'smin': 'slt', 'smax': 'sgt'}[k], w, a[0], a[1], ins)
            return self.select1(c, a[0], a[1], w, ins)
        raise Inconclusive('unsupported intrinsic llvm.%s %s' % (k, self.where(ins)))

    # ---------------------------------------------------------------- function execution
    def call(self, fn, args):
        if len(self.stack) > 100:
            raise Inconclusive('call depth exceeded')
        wipe = None
        if fn.name == 'tinyjambu_clean':
            n = self.concretise(args[1], 'secret-length', None)
            wipe = (self.record_wipe(self.stack[-1] if self.stack else 'driver', self.ptr(args[0], None), n), args[0], n)
        fr = Frame()
        fr.fn, fr.mod, fr.regs, fr.allocas = fn, fn.mod, dict(zip(fn.params, args)), []
        self.stack.append(fn.name)
        self.fexec.add(fn.name)
        label, prev, H, trace = fn.entry, None, self.H, self.trace
        try:
            while True:
                blk = fn.blocks[label]
                if trace is not None:
                    trace.append(('bb', fn.name, label))
                if blk.phis:
                    vals = [self.val(ph.x[prev], fr) for ph in blk.phis]
                    for ph, v in zip(blk.phis, vals):
                        fr.regs[ph.dest] = v
                self.steps += len(blk.ins)
                if self.deadline and time.time() > self.deadline:
                    raise Inconclusive('timeout')
                r = None
                for ins in blk.ins:
                    r = H[ins.op](ins, fr)
                if r is None:
                    raise Inconclusive('block without terminator in @' + fn.name)
                if r[0] == 'j':
                    prev, label = label, r[1]
                else:
                    break
        finally:
            self.stack.pop()
            for o in fr.allocas:
                o.alive = False
        if wipe:
            w, p, n = wipe
            self.nprops += 1
            w['effective'] = all(b == 0 for b in p.obj.data[p.off:p.off + n] if type(b) is int) and \
                all(type(b) is int for b in p.obj.data[p.off:p.off + n])
            if not w['effective']:
                self.failed.append(['ineffective-wipe', 'tinyjambu_clean(%s,%d) left non-zero bytes' % (p, n)])
        return r[1]
