#!/usr/bin/env python3
"""Shows that ctcheck.py can FAIL: builds six mutated copies of the library in temp dirs (deleted afterwards),
runs the checker on each and prints what was reported.  Usage: demo_mutants.py [--repo PATH] [--opt O2]"""
import argparse
import json
import os
import shutil
import subprocess
import sys
import tempfile
import time

HERE = os.path.dirname(os.path.abspath(__file__))
TABLE = 'static const unsigned char e3_tbl[256] = {%s};\n' % ','.join(str((i * 7 + 3) & 255) for i in range(256))
MUTANTS = [
    ('1 early-exit tag compare', 'secret-branch', 'src/backend/tinyjambu-util.c',
     'accum |= (*tag1++ ^ *tag2++);', 'if (*tag1++ != *tag2++) { accum = 0xFF; break; }',
     [('checktag', 'p=4', []), ('aead-dec', 'ks=128,ad=3,m=5', [])]),
    ('2 branch on accum around plaintext clearing', 'secret-branch', 'src/backend/tinyjambu-util.c',
     'while (plaintext_len > 0) {', 'if (accum != -1) while (plaintext_len > 0) {',
     [('checktag', 'p=4', []), ('siv-dec', 'ks=192,ad=0,m=4', [])]),
    ('3 table lookup indexed by a key byte', 'secret-address', 'src/tinyjambu-128-aead.c',
     'void tinyjambu_128_aead_encrypt', TABLE + 'void tinyjambu_128_aead_encrypt',
     [('aead-enc', 'ks=128,ad=1,m=1', [])],
     ('    tinyjambu_setup_128(&state, npub, 0x10);', '    state.k[1] ^= e3_tbl[k[5]];\n    tinyjambu_setup_128(&state, npub, 0x10);')),
    ('4 data-dependent carry loop in prng_generate', 'secret-branch', 'src/tinyjambu-prng.c',
     'index >= 0; --index) {', 'index >= 0 && carry != 0; --index) {',
     [('prng', 'size=16,ctr=1,limit=32,k=32,feed=0', [])]),
    ('5 word-wide store into caller ciphertext', 'misaligned-access', 'src/tinyjambu-128-aead.c',
     'le_store_word32(c, data);', '*(uint32_t *)c = data;',
     [('aead-enc', 'ks=128,ad=0,m=4', [])]),
    ('6 deleted tinyjambu_clean(hash) in hmac_finalize', 'missing-wipe', 'src/tinyjambu-hmac.c',
     'tinyjambu_clean(hash, sizeof(hash));', '',
     [('hmac', 'k=5,m=3', ['--expect-wipes'])]),
    # ---- further failure kinds (not in the required list) ----
    ('7 shift amount from a tag byte', 'secret-shift', 'src/backend/tinyjambu-util.c',
     'accum = (accum - 1) >> 8;', 'accum = (accum - 1) >> (8 + (tag1[-1] & 1));', [('checktag', 'p=2', [])]),
    ('8 division by a plaintext byte', 'secret-division', 'src/backend/tinyjambu-util.c',
     'accum = (accum - 1) >> 8;', 'accum = (accum - 1) >> 8; accum /= (plaintext[0] | 1);', [('checktag', 'p=2', [])]),
    ('9 memset length from a tag byte', 'secret-length', 'src/backend/tinyjambu-util.c',
     'accum = (accum - 1) >> 8;', 'accum = (accum - 1) >> 8; __builtin_memset(plaintext, 0, tag2[-1] & 3);', [('checktag', 'p=4', [])]),
    ('10 code path depends on buffer alignment', 'alignment-dependent', 'src/backend/tinyjambu-util.c',
     'accum = (accum - 1) >> 8;', 'accum = (accum - 1) >> 8; if ((((unsigned long)plaintext) & 3) == 0) plaintext[0] = 0;', [('checktag', 'p=4', [])]),
    ('11 read one byte past the tag', 'out-of-bounds', 'src/backend/tinyjambu-util.c',
     'accum = (accum - 1) >> 8;', 'accum |= tag1[0]; accum = (accum - 1) >> 8;', [('checktag', 'p=4', [])]),
    ('12 floating point (unsupported instruction)', 'INCONCLUSIVE', 'src/backend/tinyjambu-util.c',
     'accum = (accum - 1) >> 8;', 'accum = (int)((double)(accum - 1) / 256.0);', [('checktag', 'p=4', [])]),
    ('13 unknown external call', 'INCONCLUSIVE', 'src/backend/tinyjambu-util.c',
     'accum = (accum - 1) >> 8;', 'accum = (accum - 1) >> 8; { extern int puts(const char *); puts("x"); }', [('checktag', 'p=4', [])]),
]


def main():
    ap = argparse.ArgumentParser()
    ap.add_argument('--repo', default='/repo')
    ap.add_argument('--opt', default='O2')
    a = ap.parse_args()
    ok = True
    for m in MUTANTS:
        title, want, path, old, new, runs = m[:6]
        tmp = tempfile.mkdtemp(prefix='e3-mutant-')
        try:
            shutil.copytree(os.path.join(a.repo, 'src'), os.path.join(tmp, 'src'))
            shutil.copy(os.path.join(a.repo, 'config.h.in'), tmp)
            f = os.path.join(tmp, path)
            text = open(f).read()
            for o, n in [(old, new)] + list(m[6:]):
                assert o in text, (title, o)
                text = text.replace(o, n, 1)
            open(f, 'w').write(text)
            for api, shape, extra in runs:
                t = time.time()
                out = subprocess.run([sys.executable, os.path.join(HERE, 'ctcheck.py'), '--api', api, '--shape', shape, '--repo', tmp,
                                      '--opt', a.opt, '--timeout', '300'] + extra, capture_output=True, text=True).stdout
                r = json.loads([ln for ln in out.splitlines() if ln.startswith('RESULT ')][0][7:])
                ids = [x[0] for x in r['failed']]
                cex = r.get('counterexample') or {}
                good = r['status'] == 'FAIL' and want in ids and (not want.startswith('secret') or cex.get('reproduced'))
                if want == 'INCONCLUSIVE':
                    good = r['status'] == want
                    print('      why: ' + r.get('why', '')[:200])
                ok &= good
                print('%-48s %-9s %-36s -> %s %s reproduced=%s queries=%d solver=%.2fs total=%.1fs %s' % (
                    title, api, shape, r['status'], ids, cex.get('reproduced'), r.get('queries', 0), r.get('solver_s', 0),
                    time.time() - t, 'OK' if good else 'UNEXPECTED ' + r.get('why', '')))
                for x in r['failed'][:1]:
                    print('      ' + x[1][:200])
                if cex:
                    d = cex['divergence']
                    print('      witness_a %s\n      witness_b %s\n      first divergence #%s: a=%s b=%s' % (
                        json.dumps(cex['witness_a'])[:160], json.dumps(cex['witness_b'])[:160], d and d['index'], d and d['a'], d and d['b']))
        finally:
            shutil.rmtree(tmp, ignore_errors=True)
    sys.stdout.flush()
    print('ALL MUTANTS DETECTED' if ok else 'SOME MUTANT WAS NOT DETECTED')
    return 0 if ok else 1


if __name__ == '__main__':
    sys.exit(main())
