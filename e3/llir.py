"""E3: minimal parser for clang-14 textual LLVM IR (typed pointers).

Only the subset emitted for the TinyJAMBU library is understood.  Anything else
becomes an Ins(op='unsupported') that makes the interpreter stop INCONCLUSIVE.
"""
import re

TOK = re.compile(r'c"(?:[^"\\]|\\.)*"|"[^"]*"|[%@](?:"[^"]*"|[-\w$.]+)|![-\w$.]*|#\d+|-?\d+|\.\.\.|[A-Za-z_][\w.]*|\S')
VOID, PTR = ('void',), ('ptr',)
BINOPS = {'add', 'sub', 'mul', 'and', 'or', 'xor', 'shl', 'lshr', 'ashr', 'udiv', 'sdiv', 'urem', 'srem'}
CASTS = {'zext', 'sext', 'trunc', 'bitcast', 'ptrtoint', 'inttoptr'}
ATTRS = {'noundef', 'nonnull', 'nocapture', 'readonly', 'writeonly', 'noalias', 'immarg', 'zeroext', 'signext',
         'returned', 'dereferenceable', 'dereferenceable_or_null', 'byval', 'sret', 'inreg', 'nest', 'nofree',
         'readnone', 'fastcc', 'ccc', 'coldcc', 'nuw', 'nsw', 'exact', 'inbounds', 'volatile', 'nnan', 'ninf',
         'nsz', 'arcp', 'contract', 'afn', 'reassoc', 'fast', 'swiftself', 'nounwind'}


class ParseError(Exception):
    pass


def nm(tok):
    tok = tok[1:]
    return tok[1:-1] if tok.startswith('"') else tok


class Ins:
    __slots__ = ('op', 'dest', 'ty', 'a', 'x', 'text', 'cache')

    def __init__(self, op, dest=None, ty=None, a=None, x=None, text=''):
        self.op, self.dest, self.ty, self.a, self.x, self.text, self.cache = op, dest, ty, a, x, text, None


class Block:
    def __init__(self, label):
        self.label, self.phis, self.ins = label, [], []


class Function:
    def __init__(self, name, params, mod):
        self.name, self.params, self.mod, self.blocks, self.entry = name, params, mod, {}, None


class Module:
    def __init__(self, name):
        self.name, self.types, self.globals, self.funcs, self.declares = name, {}, {}, {}, set()
        self._sz = {}

    def layout(self, ty):
        """-> (alloc size, abi alignment, field offsets or None) for the x86-64 data layout."""
        r = self._sz.get(ty)
        if r is None:
            r = self._sz[ty] = self._layout(ty)
        return r

    def _layout(self, ty):
        k = ty[0]
        if k == 'i':
            b = (ty[1] + 7) // 8
            a = 1
            while a < b and a < 16:
                a *= 2
            return (-(-b // a) * a, min(a, 8) if ty[1] <= 64 else 16, None)
        if k == 'ptr':
            return (8, 8, None)
        if k == 'fp':
            s = {'half': 2, 'float': 4, 'double': 8}[ty[1]]
            return (s, s, None)
        if k == 'arr':
            s, a, _ = self.layout(ty[2])
            return (s * ty[1], a, None)
        if k == 'vec':
            s, _, _ = self.layout(ty[2])
            t, a = s * ty[1], 1
            while a < t:
                a *= 2
            return (a, a, None)
        if k == 'named':
            if ty[1] not in self.types:
                raise ParseError('opaque type %' + ty[1])
            return self.layout(self.types[ty[1]])
        if k == 'st':
            off, al, offs = 0, 1, []
            for f in ty[1]:
                s, a, _ = self.layout(f)
                if ty[2]:
                    a = 1
                off = -(-off // a) * a
                offs.append(off)
                off += s
                al = max(al, a)
            return (-(-off // al) * al, al, offs)
        raise ParseError('no layout for type %r' % (ty,))

    def sizeof(self, ty):
        return self.layout(ty)[0]

    def resolve(self, ty):
        while ty[0] == 'named':
            ty = self.types[ty[1]]
        return ty


class P:
    """Token cursor with type / value parsers."""

    def __init__(self, toks):
        self.t, self.i = toks, 0

    def peek(self):
        return self.t[self.i] if self.i < len(self.t) else ''

    def next(self):
        if self.i >= len(self.t):
            raise ParseError('unexpected end')
        self.i += 1
        return self.t[self.i - 1]

    def accept(self, s):
        if self.peek() == s:
            self.i += 1
            return True
        return False

    def expect(self, s):
        if self.next() != s:
            raise ParseError('expected %r near %r' % (s, ' '.join(self.t[max(0, self.i - 4):self.i + 2])))

    def skip_parens(self):
        d = 0
        while True:
            t = self.next()
            d += (t == '(') - (t == ')')
            if d == 0:
                return

    def attrs(self):
        """Skip attribute keywords; returns the value of an 'align N' attribute if present."""
        al = None
        while True:
            t = self.peek()
            if t == 'align':
                self.next()
                if self.accept('('):
                    al = int(self.next())
                    self.expect(')')
                else:
                    al = int(self.next())
            elif t in ATTRS:
                self.next()
                if self.peek() == '(' and t in ('dereferenceable', 'dereferenceable_or_null', 'byval', 'sret'):
                    self.skip_parens()
            else:
                return al

    def type(self):
        t = self.next()
        if t == 'void':
            ty = VOID
        elif re.fullmatch(r'i\d+', t):
            ty = ('i', int(t[1:]))
        elif t[0] == '%':
            ty = ('named', nm(t))
        elif t == '[':
            n = int(self.next())
            self.expect('x')
            ty = ('arr', n, self.type())
            self.expect(']')
        elif t == '<' and self.peek() != '{':
            n = int(self.next())
            self.expect('x')
            ty = ('vec', n, self.type())
            self.expect('>')
        elif t in ('{', '<'):
            packed = t == '<'
            if packed:
                self.expect('{')
            fs = []
            while not self.accept('}'):
                fs.append(self.type())
                self.accept(',')
            if packed:
                self.expect('>')
            ty = ('st', tuple(fs), packed)
        elif t in ('float', 'double', 'half'):
            ty = ('fp', t)
        elif t == 'ptr':
            ty = PTR
        elif t in ('metadata', 'label', 'token', 'opaque'):
            ty = (t,)
        else:
            raise ParseError('bad type token %r' % t)
        while True:
            if self.accept('*'):
                ty = PTR
            elif self.peek() == '(':
                self.skip_parens()
                ty = ('fn', ty)
            else:
                return ty

    def tvalue(self):
        ty = self.type()
        return ty, self.value(ty)

    def value(self, ty):
        t = self.next()
        c = t[0]
        if c == '%':
            return ('r', nm(t))
        if c == '@':
            return ('g', nm(t))
        if c.isdigit() or (c == '-' and len(t) > 1):
            if ty[0] != 'i':
                raise ParseError('numeric constant of type %r' % (ty,))
            return ('c', int(t) & ((1 << ty[1]) - 1))
        if t in ('true', 'false'):
            return ('c', int(t == 'true'))
        if t == 'null':
            return ('null',)
        if t in ('undef', 'poison'):
            return ('undef',)
        if t == 'zeroinitializer':
            return ('zero', ty)
        if t.startswith('c"'):
            s, out, i = t[2:-1], bytearray(), 0
            while i < len(s):
                if s[i] == '\\':
                    if s[i + 1] == '\\':
                        out.append(92)
                        i += 2
                    else:
                        out.append(int(s[i + 1:i + 3], 16))
                        i += 3
                else:
                    out.append(ord(s[i]))
                    i += 1
            return ('agg', [(('i', 8), ('c', b)) for b in out])
        if t in ('[', '{', '<'):
            close = {'[': ']', '{': '}', '<': '>'}[t]
            if t == '<' and self.accept('{'):
                close = '}'
            els = []
            while not self.accept(close):
                els.append(self.tvalue())
                self.accept(',')
            if close == '}' and t == '<':
                self.expect('>')
            return ('agg', els)
        if t in CASTS:
            self.expect('(')
            sty, v = self.tvalue()
            self.expect('to')
            dty = self.type()
            self.expect(')')
            return ('ce', t, sty, v, dty)
        if t == 'getelementptr':
            self.attrs()
            self.expect('(')
            ety = self.type()
            self.expect(',')
            _, base = self.tvalue()
            idx = []
            while self.accept(','):
                self.accept('inrange')
                idx.append(self.tvalue())
            self.expect(')')
            return ('gep', ety, base, idx)
        raise ParseError('unsupported constant %r' % t)


def parse_ins(line):
    toks = TOK.findall(line)
    p, dest = P(toks), None
    if len(toks) > 2 and toks[1] == '=' and toks[0][0] == '%':
        dest, p.i = nm(toks[0]), 2
    op = p.next()
    if op in ('tail', 'musttail', 'notail'):
        op = p.next()
    I = lambda **k: Ins(op, dest, text=line.strip(), **k)
    if op in BINOPS:
        p.attrs()
        ty, a = p.tvalue()
        p.expect(',')
        return I(ty=ty, a=[a, p.value(ty)])
    if op == 'icmp':
        pred = p.next()
        ty, a = p.tvalue()
        p.expect(',')
        return I(ty=ty, a=[a, p.value(ty)], x=pred)
    if op in CASTS or op == 'freeze':
        sty, v = p.tvalue()
        dty = sty
        if op != 'freeze':
            p.expect('to')
            dty = p.type()
        return I(ty=dty, a=[v], x=sty)
    if op == 'select':
        cty, c = p.tvalue()
        p.expect(',')
        ty, a = p.tvalue()
        p.expect(',')
        _, b = p.tvalue()
        return I(ty=ty, a=[c, a, b], x=cty)
    if op == 'load':
        p.attrs()
        ty = p.type()
        p.expect(',')
        _, ptr = p.tvalue()
        p.accept(',')
        return I(ty=ty, a=[ptr], x=p.attrs() or 1)
    if op == 'store':
        p.attrs()
        ty, v = p.tvalue()
        p.expect(',')
        _, ptr = p.tvalue()
        p.accept(',')
        return I(ty=ty, a=[v, ptr], x=p.attrs() or 1)
    if op == 'alloca':
        ty, cnt = p.type(), ('c', 1)
        al = None
        while p.accept(','):
            if p.peek() == 'align':
                al = p.attrs()
            elif p.peek() == 'addrspace':
                raise ParseError('addrspace')
            else:
                _, cnt = p.tvalue()
        return I(ty=ty, a=[cnt], x=al)
    if op == 'getelementptr':
        p.attrs()
        ety = p.type()
        p.expect(',')
        pty, base = p.tvalue()
        if pty != PTR:
            raise ParseError('vector getelementptr')
        idx = []
        while p.accept(','):
            idx.append(p.tvalue())
        return I(ty=ety, a=[base], x=idx)
    if op == 'br':
        if p.accept('label'):
            return I(a=[], x=[nm(p.next())])
        _, c = p.tvalue()
        p.expect(',')
        p.expect('label')
        t = nm(p.next())
        p.expect(',')
        p.expect('label')
        return I(a=[c], x=[t, nm(p.next())])
    if op == 'switch':
        ty, v = p.tvalue()
        p.expect(',')
        p.expect('label')
        dflt = nm(p.next())
        p.expect('[')
        cases = {}
        while not p.accept(']'):
            _, cv = p.tvalue()
            p.expect(',')
            p.expect('label')
            cases[cv[1]] = nm(p.next())
        return I(ty=ty, a=[v], x=(dflt, cases))
    if op == 'phi':
        ty = p.type()
        inc = {}
        while p.accept('['):
            v = p.value(ty)
            p.expect(',')
            inc[nm(p.next())] = v
            p.expect(']')
            p.accept(',')
        return I(ty=ty, x=inc)
    if op == 'ret':
        ty = p.type()
        return I(ty=ty, a=[] if ty == VOID else [p.value(ty)])
    if op == 'unreachable':
        return I()
    if op == 'call':
        p.attrs()
        ty = p.type()
        callee = p.value(ty)
        if ty[0] == 'fn':
            ty = ty[1]
        if callee[0] == 'g' and callee[1].startswith('llvm.dbg'):
            return Ins('nop', text=line.strip())
        p.expect('(')
        args, tys, als = [], [], []
        while not p.accept(')'):
            aty = p.type()
            al = p.attrs()
            args.append(p.value(aty))
            tys.append(aty)
            als.append(al)
            p.accept(',')
        return I(ty=ty, a=args, x=(callee, tys, als))
    if op in ('extractelement', 'insertelement', 'shufflevector'):
        ops, tys = [], []
        while True:
            ty, v = p.tvalue()
            ops.append(v)
            tys.append(ty)
            if not p.accept(','):
                break
        return I(ty=tys[0], a=ops, x=tys)
    raise ParseError('unsupported instruction')


def parse_module(text, name):
    m = Module(name)
    lines = text.split('\n')
    i = 0
    while i < len(lines):
        ln = lines[i]
        i += 1
        if ln.startswith('%') and ' = type ' in ln:
            toks = TOK.findall(ln)
            if toks[3] != 'opaque':
                p = P(toks)
                p.i = 3
                m.types[nm(toks[0])] = p.type()
        elif ln.startswith('@'):
            toks = TOK.findall(ln)
            p = P(toks)
            while p.next() not in ('global', 'constant'):
                pass
            ty = p.type()
            init = None
            if p.peek() not in (',', ''):
                init = p.value(ty)
            al = None
            while p.accept(','):
                if p.peek() == 'align':
                    al = p.attrs()
                else:
                    p.next()
            m.globals[nm(toks[0])] = (ty, init, al)
        elif ln.startswith('declare'):
            m.declares.add(nm(re.search(r'@(?:"[^"]*"|[-\w$.]+)', ln).group(0)))
        elif ln.startswith('define'):
            toks = TOK.findall(ln)
            k = next(j for j, t in enumerate(toks) if t[0] == '@')
            p = P(toks)
            p.i = k + 1
            p.expect('(')
            params = []
            while not p.accept(')'):
                if p.accept('...'):
                    continue
                p.type()
                p.attrs()
                params.append(nm(p.next()) if p.peek()[:1] == '%' else str(len(params)))
                p.accept(',')
            f = Function(nm(toks[k]), params, m)
            m.funcs[f.name] = f
            blk = None
            while lines[i] != '}':
                ln = lines[i]
                i += 1
                if 'c"' not in ln:
                    ln = ln.split(';')[0]
                if not ln.strip():
                    continue
                lab = re.match(r'^("[^"]+"|[-\w$.]+):', ln)
                if lab:
                    blk = Block(lab.group(1).strip('"'))
                    f.blocks[blk.label] = blk
                    continue
                if blk is None:     # implicit entry label = number of (unnamed) parameters
                    blk = Block(str(sum(1 for q in params if q.isdigit())))
                    f.blocks[blk.label] = blk
                if f.entry is None:
                    f.entry = blk.label
                if ln.lstrip().startswith('switch') and ln.rstrip().endswith('['):
                    while not lines[i].strip().startswith(']'):
                        ln += ' ' + lines[i].split(';')[0]
                        i += 1
                    ln += ' ]'
                    i += 1
                try:
                    ins = parse_ins(ln)
                except (ParseError, ValueError, IndexError, KeyError) as e:
                    ins = Ins('unsupported', text=ln.strip(), x=str(e))
                if ins.op == 'phi':
                    blk.phis.append(ins)
                else:
                    blk.ins.append(ins)
            i += 1
    return m
