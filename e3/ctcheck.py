#!/usr/bin/env python3
"""E3 constant-time checker for the TinyJAMBU C library on clang-14 LLVM IR.  See README.md."""
import argparse
import collections
import json
import os
import re
import shutil
import subprocess
import sys
import tempfile
import time

sys.path.insert(0, os.path.dirname(os.path.abspath(__file__)))
sys.setrecursionlimit(20000)
import llir      # noqa: E402
import interp    # noqa: E402
from interp import Ptr, Fail, Inconclusive   # noqa: E402

HOST = ('HAVE_STRINGS_H HAVE_EXPLICIT_BZERO HAVE_SYS_RANDOM_H HAVE_SYS_SYSCALL_H HAVE_TIME_H HAVE_SYS_TIME_H '
        'HAVE_GETRANDOM HAVE_GETENTROPY HAVE_TIME HAVE_GETTIMEOFDAY HAVE_CLOCK_GETTIME HAVE_UNISTD_H HAVE_FCNTL_H').split()
TUS = ['tinyjambu-%s-%s.c' % (k, m) for k in (128, 192, 256) for m in ('aead', 'siv')] + \
      ['tinyjambu-%s.c' % x for x in ('hash', 'hmac', 'hkdf', 'pbkdf2', 'prng')] + \
      ['backend/tinyjambu-aead-common-%s.c' % k for k in (128, 192, 256)] + \
      ['backend/tinyjambu-%s-c32.c' % k for k in (128, 192, 256)] + \
      ['backend/tinyjambu-util.c', 'backend/tinyjambu-clean.c', 'random/tinyjambu-trng-dev-random.c']


def build(repo, opt, config, vectorize, tmp):
    """Compile every TU of <repo> to LLVM IR inside tmp and parse it.  Nothing is cached."""
    feats = set(HOST) - ({'HAVE_EXPLICIT_BZERO'} if config == 'volatile' else set())
    cfg = os.path.join(tmp, 'cfg')
    os.makedirs(cfg)
    text = open(os.path.join(repo, 'config.h.in')).read()
    text = re.sub(r'^#cmakedefine\s+(\w+).*$', lambda m: ('#define %s' if m.group(1) in feats else '/* #undef %s */') % m.group(1),
                  text, flags=re.M)
    open(os.path.join(cfg, 'config.h'), 'w').write(text)
    flags = ['-' + opt, '-S', '-emit-llvm', '-std=c99', '-DHAVE_CONFIG_H', '-I' + cfg, '-I' + os.path.join(repo, 'src'),
             '-fno-unroll-loops', '-w'] + ([] if vectorize else ['-fno-vectorize', '-fno-slp-vectorize'])
    procs = []
    for tu in TUS:
        src = os.path.join(repo, 'src', tu)
        if os.path.exists(src):
            out = os.path.join(tmp, os.path.basename(tu)[:-2] + '.ll')
            procs.append((out, subprocess.Popen(['clang-14'] + flags + [src, '-o', out], stderr=subprocess.PIPE)))
    mods = []
    for out, p in procs:
        err = p.communicate()[1]
        if p.returncode:
            raise Inconclusive('compilation failed: ' + err.decode(errors='replace')[-400:])
        mods.append(llir.parse_module(open(out).read(), os.path.basename(out)))
    return mods


# --------------------------------------------------------------------------- harness
class Harness:
    def __init__(self, mods, **kw):
        self.it = interp.Interp(mods, **kw)
        self.o = {}

    def buf(self, name, n, secret=True, kind='caller', align=1, data=None):
        if data is None:
            data = self.it.secret(name, n) if secret else [None] * n
        self.o[name] = self.it.new_obj(name, kind, n, align, data)
        return Ptr(self.o[name], 0)

    def out(self, name, n):
        return self.buf(name, n, secret=False)

    def typed(self, name, n, align=8, data=None):
        return self.buf(name, n, secret=False, kind='state', align=align, data=data)

    def call(self, f, *args):
        if f not in self.it.funcs:
            raise Inconclusive('function @%s is not defined in the compiled modules' % f)
        return self.it.call(self.it.funcs[f], list(args))

    def bytes(self, name, n=None):
        d = self.o[name].data[:n]
        return bytes(d) if all(type(b) is int for b in d) else None


def d_aead(h, s, mode, dec):
    ks, ad, m = s['ks'], s['ad'], s['m']
    f = 'tinyjambu_%d_%s_%s' % (ks, mode, 'decrypt' if dec else 'encrypt')
    k, npub, a = h.buf('k', ks // 8), h.buf('npub', 12), h.buf('ad', ad)
    ln = h.typed('len', 8)
    if dec:
        h.ret = h.call(f, h.out('m', m), ln, h.buf('c', m + 8), m + 8, a, ad, npub, k)
    else:
        pt = h.buf('m', m)
        h.call(f, h.out('c', m + 8), ln, pt, m, a, ad, npub, k)


def d_checktag(h, s):
    h.ret = h.call('tinyjambu_aead_check_tag', h.buf('plaintext', s['p']), s['p'], h.buf('tag1', 8), h.buf('tag2', 8), 8)


def d_hash(h, s):
    n, c1 = s['n'], min(s['c1'], s['n'])
    st, i = h.typed('state', 56, data=[0] * 56), h.buf('in', n)
    h.call('tinyjambu_hash_init', st)
    h.call('tinyjambu_hash_update', st, i, c1)
    h.call('tinyjambu_hash_update', st, Ptr(i.obj, c1), n - c1)
    h.call('tinyjambu_hash_finalize', st, h.out('out', 32))
    h.call('tinyjambu_hash_free', st)


def d_hash1(h, s):
    h.call('tinyjambu_hash', h.out('out', 32), h.buf('in', s['n']), s['n'])


def d_hmac(h, s):
    h.call('tinyjambu_hmac', h.out('out', 32), h.buf('key', s['k']), s['k'], h.buf('in', s['m']), s['m'])


def d_hmac_stream(h, s):
    k, m, c1 = s['k'], s['m'], min(s['c1'], s['m'])
    st, key, i = h.typed('state', 56, data=[0] * 56), h.buf('key', k), h.buf('in', m)
    h.call('tinyjambu_hmac_init', st, key, k)
    h.call('tinyjambu_hmac_update', st, i, c1)
    h.call('tinyjambu_hmac_update', st, Ptr(i.obj, c1), m - c1)
    h.call('tinyjambu_hmac_finalize', st, key, k, h.out('out', 32))
    h.call('tinyjambu_hmac_free', st)


def d_hkdf(h, s):
    h.ret = h.call('tinyjambu_hkdf', h.out('out', s['out']), s['out'], h.buf('key', s['k']), s['k'],
                   h.buf('salt', s['s']), s['s'], h.buf('info', s['i']), s['i'])


def d_hkdf_stream(h, s):
    st, info = h.typed('state', 72), h.buf('info', s['i'])
    h.call('tinyjambu_hkdf_extract', st, h.buf('key', s['k']), s['k'], h.buf('salt', s['s']), s['s'])
    h.call('tinyjambu_hkdf_expand', st, info, s['i'], h.out('out1', s['e1']), s['e1'])
    h.call('tinyjambu_hkdf_expand', st, info, s['i'], h.out('out2', s['e2']), s['e2'])
    h.call('tinyjambu_hkdf_free', st)


def d_pbkdf2(h, s):
    h.call('tinyjambu_pbkdf2', h.out('out', s['out']), s['out'], h.buf('password', s['pw']), s['pw'],
           h.buf('salt', s['s']), s['s'], s['count'])


def entropy_cb(h, s):
    def cb(it, args, ins):      # size_t callback(void *user_data, unsigned char *buf, size_t size)
        n = min(s['k'], it.concretise(args[2], 'secret-length', ins))
        h.ncb = getattr(h, 'ncb', 0) + 1
        if n:
            p = it.ptr(args[1], ins)
            it.access(p, n, None, ins, 'w')
            p.obj.data[p.off:p.off + n] = it.secret('entropy%d' % h.ncb, n)
        return n
    h.it.pyfuncs['__e3_entropy'] = cb
    return h.it.gptr('__e3_entropy')


def d_prng(h, s):
    cb = entropy_cb(h, s)
    data = h.it.secret('V', 32) + h.it.secret('C', 32) + list((s['ctr'] & 0xffffffff).to_bytes(4, 'little')) + \
        list((s['limit'] & 0xffffffff).to_bytes(4, 'little')) + [(cb, i) for i in range(8)] + [0] * 8
    st = h.typed('state', 96, data=data)
    h.call('tinyjambu_prng_generate', st, h.out('data', s['size']), s['size'])
    h.call('tinyjambu_prng_feed', st, h.buf('feed', s['feed']), s['feed'])
    h.ret = h.call('tinyjambu_prng_reseed', st)


def d_prng_init(h, s):
    st = h.typed('state', 96)
    h.ret = h.call('tinyjambu_prng_init_user', st, entropy_cb(h, s), interp.NULL, h.buf('custom', s['custom']), s['custom'])
    h.call('tinyjambu_prng_free', st)


def d_clean(h, s):
    n, off = s['n'], s['off']
    b = h.buf('buf', off + n + 8)
    before = list(b.obj.data)
    h.call('tinyjambu_clean', Ptr(b.obj, off), n)
    after = b.obj.data
    h.it.nprops += 1
    ok = all(after[i] == 0 and type(after[i]) is int if off <= i < off + n else after[i] is before[i] or
             (type(after[i]) is int and after[i] == before[i]) for i in range(len(after)))
    if not ok:
        h.it.failed.append(['clean-postcondition', 'tinyjambu_clean(buf+%d,%d) did not zero exactly [%d,%d)' % (off, n, off, off + n)])


def d_perm(h, s):
    ks = s['ks']
    st = h.buf('state', 16 + ks // 8, kind='state', align=4)
    h.call('tinyjambu_permutation_%d' % ks, st, s['rounds'])


def ceil32(n):
    return -(-n // 32)


def w_hkdf(blocks, stream):
    return {('stack', 64): 2 * (1 + blocks), ('stack', 32): 1 + blocks, ('stack', 56): 1 + blocks,
            ('state' if stream else 'stack', 72): 1}


def w_hkdf_stream(s):
    e1, e2 = s['e1'], s['e2']
    left = (32 - e1 % 32) % 32 if e1 else 0
    return w_hkdf(min(255, ceil32(e1) + ceil32(max(0, e2 - left))), True)


def w_pbkdf2(s):
    blocks, hm = ceil32(s['out']), max(1, s['count'])
    return {('stack', 64): 2 * hm * blocks, ('stack', 56): blocks,
            ('stack', 32): hm * blocks + (1 if s['out'] % 32 else 0) + 1}


def w_prng(s):
    c, res = s['ctr'], 0
    for _ in range(ceil32(s['size'])):
        if c > s['limit']:
            res, c = res + 1, 1
        c += 1
    return {('stack', 56): 2 * ceil32(s['size']) + 2 * res + 4, ('stack', 32): 1 if s['size'] else 0}


AEAD = dict(ks=128, ad=0, m=0)
# api -> (driver, default shape, expected wipes: shape -> {(object kind, size): count})
APIS = {
    'aead-enc': (lambda h, s: d_aead(h, s, 'aead', False), AEAD, lambda s: {}),
    'aead-dec': (lambda h, s: d_aead(h, s, 'aead', True), AEAD, lambda s: {}),
    'siv-enc': (lambda h, s: d_aead(h, s, 'siv', False), AEAD, lambda s: {}),
    'siv-dec': (lambda h, s: d_aead(h, s, 'siv', True), AEAD, lambda s: {}),
    'checktag': (d_checktag, dict(p=0), lambda s: {}),
    'hash': (d_hash, dict(n=0, c1=0), lambda s: {('state', 56): 1}),
    'hash-oneshot': (d_hash1, dict(n=0), lambda s: {('stack', 56): 1}),
    'hmac': (d_hmac, dict(k=0, m=0), lambda s: {('stack', 64): 2, ('stack', 32): 1, ('stack', 56): 1}),
    'hmac-stream': (d_hmac_stream, dict(k=0, m=0, c1=0), lambda s: {('stack', 64): 2, ('stack', 32): 1, ('state', 56): 1}),
    'hkdf': (d_hkdf, dict(k=0, s=0, i=0, out=0), lambda s: w_hkdf(ceil32(s['out']), False) if s['out'] <= 8160 else {}),
    'hkdf-stream': (d_hkdf_stream, dict(k=0, s=0, i=0, e1=0, e2=0), w_hkdf_stream),
    'pbkdf2': (d_pbkdf2, dict(pw=0, s=0, out=32, count=1), w_pbkdf2),
    'prng': (d_prng, dict(size=32, ctr=1, limit=32, k=32, feed=0), w_prng),
    'prng-init': (d_prng_init, dict(custom=0, k=32), lambda s: {('stack', 56): 2, ('state', 96): 1}),
    'clean': (d_clean, dict(n=16, off=0), lambda s: {('caller', s['n']): 1}),
    'perm': (d_perm, dict(ks=128, rounds=8), lambda s: {}),
}


def shape_of(api, text):
    s = dict(APIS[api][1])
    for kv in filter(None, (text or '').split(',')):
        k, v = kv.split('=')
        if k not in s:
            raise SystemExit('unknown shape parameter %r for api %s (known: %s)' % (k, api, ','.join(s)))
        s[k] = int(v, 0)
    return s


def run_driver(api, s, mods, **kw):
    h = Harness(mods, **kw)
    h.exc = None
    try:
        APIS[api][0](h, s)
    except (Fail, Inconclusive) as e:
        h.exc = e
    return h


def confirm(api, s, mods, f):
    """Replay both witnesses concretely; the (function, block) / (object, offset) traces must differ."""
    tr = []
    for w in (f.wa, f.wb):
        h = run_driver(api, s, mods, symbolic=False, inputs={k: bytes.fromhex(v) for k, v in w.items()}, trace=True)
        tr.append(h.it.trace + ([('stopped', str(h.exc))] if h.exc else []))
    a, b = tr
    i = next((i for i, (x, y) in enumerate(zip(a, b)) if x != y), None)
    if i is None and len(a) != len(b):
        i = min(len(a), len(b))
    div = None if i is None else {'index': i, 'last_common': a[i - 1] if i else None,
                                  'a': a[i] if i < len(a) else None, 'b': b[i] if i < len(b) else None}
    return {'witness_a': f.wa, 'witness_b': f.wb, 'where': f.where, 'reproduced': i is not None, 'divergence': div,
            'trace_len': [len(a), len(b)]}


def seeds(api, s, mods):
    """Extra sample assignments for rare-but-important events: a VALID packet for the decrypt drivers (computed by
    running the encrypt function of the same IR concretely on random inputs) and equal tags for checktag."""
    rnd = lambda n: os.urandom(n)
    if api == 'checktag':
        t = rnd(8)
        return [{'tag1': t, 'tag2': t}]
    if api in ('aead-dec', 'siv-dec'):
        inp = {'k': rnd(s['ks'] // 8), 'npub': rnd(12), 'ad': rnd(s['ad']), 'm': rnd(s['m'])}
        h = run_driver(api[:-3] + 'enc', s, mods, symbolic=False, inputs=inp)
        c = None if h.exc else h.bytes('c')
        return [dict(inp, c=c)] if c else []
    return []


def check(api, s, mods, args, deadline):
    h = run_driver(api, s, mods, deadline=deadline, seeds=[] if args.no_seeds else seeds(api, s, mods))
    it, failed, why, cex = h.it, list(h.it.failed), None, None
    if isinstance(h.exc, Fail):
        failed.append([h.exc.sid, h.exc.desc])
        if h.exc.wa is not None:
            cex = confirm(api, s, mods, h.exc)
    elif h.exc is not None:
        why = str(h.exc)
    wipes = [[w['caller'], w['kind'], w['size']] for w in it.wipes]
    if args.expect_wipes and h.exc is None:
        seen = collections.Counter((w['kind'], w['size']) for w in it.wipes if w.get('effective', True))
        for (kind, size), cnt in sorted(APIS[api][2](s).items()):
            it.nprops += 1
            if seen[(kind, size)] < cnt:
                failed.append(['missing-wipe', 'expected %d wipe(s) of a %d-byte %s object, observed %d' % (cnt, size, kind, seen[(kind, size)])])
    res = {'status': 'FAIL' if failed else 'INCONCLUSIVE' if why else 'PASS', 'failed': failed, 'api': api, 'shape': s,
           'nprops': it.nprops, 'steps': it.steps, 'queries': it.queries, 'samples': it.samples, 'solver_s': round(it.solver_s, 3),
           'branches_on_public': it.pub_br, 'candidates_decided_constant': it.n_const, 'layout_dependent_compares': it.layout_cmp,
           'secret_selects': {'count': sum(it.sel.values()), 'functions': sorted(it.sel)},
           'wipes': wipes, 'wipe_details': it.wipes, 'functions_executed': sorted(it.fexec)}
    if why:
        res['why'] = why
    if cex:
        res['counterexample'] = cex
    return res


# --------------------------------------------------------------------------- self test on the repository KATs
def kat(path, limit=40):
    recs, cur = [], {}
    for ln in open(path):
        if '=' in ln:
            k, v = [x.strip() for x in ln.split('=')]
            cur[k] = v if k == 'Count' else bytes.fromhex(v)
        elif cur:
            recs.append(cur)
            cur = {}
    if cur:
        recs.append(cur)
    return [r for i, r in enumerate(recs) if i < limit - 8 or i % 61 == 0][:limit + 8]


def selftest(mods, repo):
    bad, n, steps = [], 0, 0

    def one(api, s, inputs, outname, want, what):
        nonlocal n, steps
        h = run_driver(api, s, mods, symbolic=False, inputs=inputs)
        n += 1
        steps += h.it.steps
        got = None if h.exc else h.bytes(outname, len(want))
        if h.exc or h.it.failed or got != want:
            bad.append([what, str(h.exc or h.it.failed or 'got %s want %s' % (got and got.hex(), want.hex()))])
        return h

    for mode, suffix in (('aead', ''), ('siv', '-SIV')):
        for ks in (128, 192, 256):
            for r in kat(os.path.join(repo, 'test/kat/TinyJAMBU-%d%s.txt' % (ks, suffix))):
                s = dict(ks=ks, ad=len(r['AD']), m=len(r['PT']))
                what = '%s-%d #%s' % (mode, ks, r['Count'])
                one(mode + '-enc', s, {'k': r['Key'], 'npub': r['Nonce'], 'ad': r['AD'], 'm': r['PT']}, 'c', r['CT'], what + ' enc')
                h = one(mode + '-dec', s, {'k': r['Key'], 'npub': r['Nonce'], 'ad': r['AD'], 'c': r['CT']}, 'm', r['PT'], what + ' dec')
                if h.exc is None and h.ret != 0:
                    bad.append([what, 'decrypt returned %r' % h.ret])
                c2 = bytes([r['CT'][0] ^ 1]) + r['CT'][1:]
                h = one(mode + '-dec', s, {'k': r['Key'], 'npub': r['Nonce'], 'ad': r['AD'], 'c': c2}, 'm', bytes(len(r['PT'])), what + ' forged')
                if h.exc is None and h.ret != 0xffffffff:
                    bad.append([what, 'forged packet returned %r' % h.ret])
    for r in kat(os.path.join(repo, 'test/kat/TinyJAMBU-HASH.txt'), 70):
        m = r['Msg']
        one('hash-oneshot', dict(n=len(m)), {'in': m}, 'out', r['MD'], 'hash-oneshot #' + r['Count'])
        one('hash', dict(n=len(m), c1=len(m) // 3), {'in': m}, 'out', r['MD'], 'hash #' + r['Count'])
    for r in kat(os.path.join(repo, 'test/kat/TinyJAMBU-HMAC.txt'), 70):
        s = dict(k=len(r['Key']), m=len(r['Msg']))
        one('hmac', s, {'key': r['Key'], 'in': r['Msg']}, 'out', r['Tag'], 'hmac #' + r['Count'])
        one('hmac-stream', dict(s, c1=len(r['Msg']) // 2), {'key': r['Key'], 'in': r['Msg']}, 'out', r['Tag'], 'hmac-stream #' + r['Count'])
    return {'status': 'FAIL' if bad else 'PASS', 'failed': bad[:20], 'vectors': n, 'steps': steps}


def main():
    ap = argparse.ArgumentParser(description=__doc__)
    ap.add_argument('--api', choices=sorted(APIS))
    ap.add_argument('--shape', default='')
    ap.add_argument('--opt', default='O2', choices=['O0', 'O1', 'O2', 'O3'])
    ap.add_argument('--config', default='default', choices=['default', 'volatile'])
    ap.add_argument('--repo', default='/repo')
    ap.add_argument('--expect-wipes', action='store_true')
    ap.add_argument('--timeout', type=float, default=900)
    ap.add_argument('--vectorize', action='store_true')
    ap.add_argument('--no-seeds', action='store_true', help='do not add driver-computed sample assignments (testing)')
    ap.add_argument('--list-apis', action='store_true')
    ap.add_argument('--selftest', action='store_true')
    args = ap.parse_args()
    if args.list_apis:
        for a in sorted(APIS):
            print(a, ','.join('%s=%d' % kv for kv in APIS[a][1].items()))
        return 0
    if not args.selftest and not args.api:
        ap.error('--api, --selftest or --list-apis is required')
    t0 = time.time()
    base = {'opt': args.opt, 'config': args.config, 'vectorize': args.vectorize}
    tmp = tempfile.mkdtemp(prefix='e3-')
    rc = 0
    try:
        s = shape_of(args.api, args.shape) if args.api else None
        mods = build(os.path.abspath(args.repo), args.opt, args.config, args.vectorize, tmp)
        base['build_s'] = round(time.time() - t0, 2)
        res = selftest(mods, args.repo) if args.selftest else check(args.api, s, mods, args, t0 + args.timeout)
    except Inconclusive as e:
        res = {'status': 'INCONCLUSIVE', 'failed': [], 'why': str(e)}
    except OSError as e:
        res = {'status': 'INCONCLUSIVE', 'failed': [], 'why': 'cannot read or compile the repository: %s' % e}
    except Exception as e:      # tool crash: still one RESULT line, but a non-zero exit status
        import traceback
        res = {'status': 'INCONCLUSIVE', 'failed': [], 'why': 'internal error: %r' % e, 'traceback': traceback.format_exc()[-1500:]}
        rc = 2
    finally:
        shutil.rmtree(tmp, ignore_errors=True)
    res.update(base)
    res['total_s'] = round(time.time() - t0, 2)
    print('RESULT ' + json.dumps(res, default=str))
    return rc


if __name__ == '__main__':
    sys.exit(main())
