#!/bin/sh
# usage: tools_mut.sh <file-in-repo> <sed-expr> <prop> [--only X] ; applies a mutation, runs the check, reverts
f=$1; e=$2; shift 2
cd /repo && sed -i "$e" "$f" && git diff --stat | tail -1
cd /verif && ./check "$@" 2>/dev/null | grep -v "^  failed" | tail -6
cd /repo && git checkout -- . 
