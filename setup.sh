#!/bin/sh
# Offline setup: verify the toolchain and validate the specification models against the
# repository's own KAT files (model validation, DESIGN.md section 6 / C02).
set -e
cd "$(dirname "$0")"
for t in cbmc goto-cc z3 gcc clang-14 python3 python3-vt; do
    command -v $t >/dev/null || { echo "missing tool $t"; exit 1; }
done
python3 lib/validate_models.py
python3 lib/selftest_native.py
