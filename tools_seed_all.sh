#!/bin/sh
# Runs every kept seeded change against the quick check of its property (and optionally others): applies the
# patch to /repo, runs the check, reverts.  Results go to seeded/<name>/result-<prop>.txt
cd /verif
for d in seeded/*/; do
  name=$(basename $d)
  prop=${name%%-*}
  [ -n "${1:-}" ] && [ "$1" != "$name" ] && continue
  git -C /repo apply /verif/$d/patch.diff || { echo "$name: patch does not apply"; continue; }
  start=$(date +%s)
  ./check $prop --tier quick > $d/result-$prop.txt 2>/dev/null; rc=$?
  git -C /repo checkout -- . 
  echo "$name rc=$rc $(( $(date +%s) - start ))s $(grep -c '^VIOLATION' $d/result-$prop.txt) violation lines; $(tail -1 $d/result-$prop.txt | cut -c1-110)"
done
git -C /repo status --short | grep -v _build
