#!/bin/sh
# usage: tools_seed_wt.sh <seed-name> [extra check args]: evaluates one kept seeded change in a scratch worktree of /repo
# (VERIF_REPO points the checks at it; /repo itself is not touched), writes seeded/<name>/result-<prop>.txt
name=$1; shift
prop=${name%%-*}
wt=/tmp/sw-$name
git -C /repo worktree add -q --detach $wt HEAD || exit 2
git -C $wt apply /verif/seeded/$name/patch.diff || { git -C /repo worktree remove --force $wt; echo "$name: patch does not apply"; exit 2; }
cd /verif
start=$(date +%s)
VERIF_REPO=$wt VERIF_EVIDENCE_DIR=/tmp/ev-$name ./check $prop --tier quick "$@" > seeded/$name/result-$prop.txt 2>/dev/null; rc=$?
git -C /repo worktree remove --force $wt; rm -rf /tmp/ev-$name
echo "$name rc=$rc $(( $(date +%s) - start ))s $(grep -c '^VIOLATION' seeded/$name/result-$prop.txt) violation lines; $(tail -1 seeded/$name/result-$prop.txt | cut -c1-110)"
