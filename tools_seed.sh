#!/bin/sh
# usage: tools_seed.sh verify <PROP> <WT>      - confirm a seeded change in its scratch worktree (ctest passes, demo fails with / passes without)
#        tools_seed.sh keep   <PROP> <WT> <name> - copy _seed into /verif/seeded/<name>/
#        tools_seed.sh run    <name> <check args...> - apply /verif/seeded/<name>/patch.diff to /repo, run ./check, revert
set -u
cmd=$1; shift
case $cmd in
verify)
  p=$1; wt=$2
  cd $wt || exit 2
  git status --short | head -5
  (cmake -G Ninja -B _b >/dev/null 2>&1 && cmake --build _b >/dev/null 2>&1 && ctest --test-dir _b -j8 --timeout 900 2>&1 | tail -2) 
  sh _seed/run_demo.sh $wt >/tmp/seed-demo-with.log 2>&1; echo "demo WITH change: rc=$? (expect non-zero): $(tail -1 /tmp/seed-demo-with.log | cut -c1-150)"
  git apply -R _seed/patch.diff && { sh _seed/run_demo.sh $wt >/tmp/seed-demo-without.log 2>&1; echo "demo WITHOUT change: rc=$? (expect 0): $(tail -1 /tmp/seed-demo-without.log | cut -c1-150)"; git apply _seed/patch.diff; }
  rm -rf _b
  ;;
keep)
  p=$1; wt=$2; name=$3
  mkdir -p /verif/seeded/$name && cp -r $wt/_seed/* /verif/seeded/$name/ && ls /verif/seeded/$name
  ;;
run)
  name=$1; shift
  git -C /repo apply /verif/seeded/$name/patch.diff || exit 2
  git -C /repo diff --stat | tail -1
  cd /verif && ./check "$@" 2>/dev/null | grep -v "^  failed" | tail -5
  git -C /repo checkout -- . && git -C /repo status --short | grep -v _build
  ;;
esac
