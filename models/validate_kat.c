/* Native validation of the specification models against the repository's KAT files.
 * usage: validate_kat aead|siv <keybits> <file> | hash <file> | hmac <file> */
#include "tj_spec.h"
#include "kdf_spec.h"
#include <stdio.h>
#include <stdlib.h>
#include <string.h>

static size_t unhex(const char *s, unsigned char *out)
{
    size_t n = 0; unsigned x;
    while (s[0] && s[1] && sscanf(s, "%2x", &x) == 1) { out[n++] = (unsigned char)x; s += 2; }
    return n;
}
static unsigned char key[4096], nonce[64], pt[4096], ad[4096], ct[4096], out[4096], msg[4096];
int main(int argc, char **argv)
{
    const char *mode = argv[1];
    unsigned keybits = 0; const char *file;
    size_t keylen = 0, ptlen = 0, adlen = 0, ctlen = 0, msglen = 0;
    unsigned count = 0, bad = 0;
    char line[20000];
    FILE *f;
    if (argc < 3) return 2;
    if (!strcmp(mode, "aead") || !strcmp(mode, "siv")) { keybits = atoi(argv[2]); file = argv[3]; }
    else file = argv[2];
    f = fopen(file, "r"); if (!f) { perror(file); return 2; }
    while (fgets(line, sizeof line, f)) {
        char *v = strchr(line, '=');
        if (!v) continue;
        v++; while (*v == ' ') v++;
        if (!strncmp(line, "Key", 3)) keylen = unhex(v, key);
        else if (!strncmp(line, "Nonce", 5)) unhex(v, nonce);
        else if (!strncmp(line, "PT", 2)) ptlen = unhex(v, pt);
        else if (!strncmp(line, "AD", 2)) adlen = unhex(v, ad);
        else if (!strncmp(line, "Msg", 3)) msglen = unhex(v, msg);
        else if (!strncmp(line, "CT", 2)) {
            ctlen = unhex(v, ct); ++count;
            if (ctlen != ptlen + 8) { ++bad; continue; }
            if (!strcmp(mode, "aead")) {
                spec_aead_encrypt(keybits, out, out + ptlen, pt, ptlen, ad, adlen, nonce, key);
                if (memcmp(out, ct, ctlen)) ++bad;
                spec_aead_decrypt(keybits, out, out + ptlen, ct, ptlen, ad, adlen, nonce, key);
                if (memcmp(out, pt, ptlen) || memcmp(out + ptlen, ct + ptlen, 8)) ++bad;
            } else {
                spec_siv_mac(keybits, out + ptlen, pt, ptlen, ad, adlen, nonce, key);
                spec_siv_crypt(keybits, out, pt, ptlen, nonce, out + ptlen, key);
                if (memcmp(out, ct, ctlen)) ++bad;
            }
        } else if (!strncmp(line, "MD", 2)) {
            unhex(v, ct); ++count;
            spec_hash(out, msg, msglen);
            if (memcmp(out, ct, 32)) ++bad;
        } else if (!strncmp(line, "Tag", 3)) {
            unhex(v, ct); ++count;
            spec_hmac(out, key, keylen, msg, msglen);
            if (memcmp(out, ct, 32)) ++bad;
        }
    }
    printf("%s %u vectors, %u mismatches\n", file, count, bad);
    return (bad || !count) ? 1 : 0;
}
