/* Oracles for the layers above the hash, written from the standards:
 * RFC 2104 (HMAC), RFC 5869 (HKDF), RFC 8018 (PBKDF2), SP 800-90A r1 10.1.1 (Hash_DRBG,
 * in the documented per-block variant).  All are expressed over one hash function
 * SPEC_H(out32, in, len): the Ackermann-abstracted hash under Cut 2 (-DVERIF_CUT2), the
 * MDPH model otherwise. */
#ifndef KDF_SPEC_H
#define KDF_SPEC_H
#include <stddef.h>
#include <stdint.h>
void spec_H(unsigned char out[32], const unsigned char *in, size_t len);
void spec_hmac(unsigned char out[32], const unsigned char *key, size_t keylen,
               const unsigned char *msg, size_t msglen);
/* first outlen bytes of the RFC 5869 output stream; outlen <= 255*32 */
void spec_hkdf(unsigned char *out, size_t outlen, const unsigned char *key, size_t keylen,
               const unsigned char *salt, size_t saltlen, const unsigned char *info, size_t infolen);
void spec_hkdf_extract(unsigned char prk[32], const unsigned char *key, size_t keylen,
                       const unsigned char *salt, size_t saltlen);
/* T(n) = HMAC(prk, Tprev(if n>1) || info || n) */
void spec_hkdf_block(unsigned char T[32], const unsigned char prk[32], const unsigned char *Tprev,
                     const unsigned char *info, size_t infolen, unsigned n);
void spec_pbkdf2_F(unsigned char T[32], const unsigned char *pw, size_t pwlen,
                   const unsigned char *salt, size_t saltlen, unsigned long count, uint32_t i);
void spec_pbkdf2(unsigned char *out, size_t outlen, const unsigned char *pw, size_t pwlen,
                 const unsigned char *salt, size_t saltlen, unsigned long count);

/* Hash_DRBG working state */
typedef struct { unsigned char V[32], C[32]; uint32_t reseed_counter; } spec_drbg_t;
void spec_hash_df(unsigned char out[32], const unsigned char *input, size_t len);
/* entropy_input is the 32-byte buffer as left by the entropy source */
void spec_drbg_instantiate(spec_drbg_t *d, const unsigned char entropy[32],
                           const unsigned char *custom, size_t custom_len);
void spec_drbg_reseed(spec_drbg_t *d, const unsigned char entropy[32]);
void spec_drbg_feed(spec_drbg_t *d, const unsigned char *data, size_t len);
/* one output block: out = H(V) then V advances */
void spec_drbg_block(spec_drbg_t *d, unsigned char out[32]);
#endif
