/* See tj_spec.h.  Deliberately written in bit-index style from the specification text. */
#include "tj_spec.h"
#include "../harness/stubs/perm_uf.h"

/* ---- state bit helpers ------------------------------------------------------------ */
static unsigned get_bit(const spec_state_t *S, unsigned i)
{
    return (S->w[i / 32] >> (i % 32)) & 1u;
}
/* XOR the low nbits of value into state bits pos .. pos+nbits-1 (nbits <= 32, no word crossing) */
static void xor_bits(spec_state_t *S, unsigned pos, unsigned nbits, uint32_t value)
{
    uint32_t mask = (nbits >= 32) ? 0xFFFFFFFFu : ((1u << nbits) - 1u);
    S->w[pos / 32] ^= (value & mask) << (pos % 32);
}
static uint32_t get_bits32(const spec_state_t *S, unsigned pos) /* pos multiple of 32 */
{
    return S->w[pos / 32];
}
static uint32_t bytes_le(const unsigned char *p, unsigned n) /* n <= 4 */
{
    uint32_t v = 0;
    for (unsigned i = 0; i < n; ++i) v |= ((uint32_t)p[i]) << (8 * i);
    return v;
}

/* ---- the keyed NLFSR ---------------------------------------------------------------- */
void spec_update_bitserial(spec_state_t *S, const unsigned char *key, unsigned keybits, unsigned nsteps)
{
    for (unsigned i = 0; i < nsteps; ++i) {
        unsigned kb = i % keybits;
        unsigned k = (key[kb / 8] >> (kb % 8)) & 1u;
        unsigned fb = get_bit(S, 0) ^ get_bit(S, 47) ^ (1u ^ (get_bit(S, 70) & get_bit(S, 85)))
                      ^ get_bit(S, 91) ^ k;
        /* shift the register by one position, feedback enters at bit 127 */
        S->w[0] = (S->w[0] >> 1) | (S->w[1] << 31);
        S->w[1] = (S->w[1] >> 1) | (S->w[2] << 31);
        S->w[2] = (S->w[2] >> 1) | (S->w[3] << 31);
        S->w[3] = (S->w[3] >> 1) | ((uint32_t)fb << 31);
    }
}

void spec_update(spec_state_t *S, const unsigned char *key, unsigned keybits, unsigned nsteps)
{
#ifdef __CPROVER__
    /* Cut 1: same uninterpreted functions as the implementation-side stand-in, which is
     * keyed with the pre-inverted little-endian key words and the round count. */
    uint32_t kinv[8];
    for (unsigned j = 0; j < keybits / 32; ++j) kinv[j] = ~bytes_le(key + 4 * j, 4);
    if (keybits == 128) UF_APPLY(128, S->w, kinv, nsteps / 128);
    else if (keybits == 192) UF_APPLY(192, S->w, kinv, nsteps / 128);
    else UF_APPLY(256, S->w, kinv, nsteps / 128);
#else
    spec_update_bitserial(S, key, keybits, nsteps);
#endif
}

/* ---- AEAD --------------------------------------------------------------------------- */
#define FRAME_NONCE 1u
#define FRAME_AD    3u
#define FRAME_MSG   5u
#define FRAME_FIN   7u
static unsigned steps_k(unsigned keybits) /* P_K-hat: 1024 / 1152 / 1280 */
{
    return keybits == 128 ? 1024u : keybits == 192 ? 1152u : 1280u;
}

/* key setup + nonce setup; `hi` is OR-ed into the frame byte for the SIV domains
 * (0x80 for both SIV passes; the SIV nonce frames are 0x90 = 0x80|1<<4 and 0xB0 = 0x80|3<<4) */
static void spec_init(spec_state_t *S, unsigned keybits, const unsigned char *key,
                      const unsigned char *npub, uint32_t framebyte)
{
    S->w[0] = S->w[1] = S->w[2] = S->w[3] = 0;
    spec_update(S, key, keybits, steps_k(keybits));
    for (unsigned i = 0; i < 3; ++i) {
        xor_bits(S, 32, 8, framebyte);               /* frame bits live in state bits 36..38 (39 for SIV) */
        spec_update(S, key, keybits, 640);
        xor_bits(S, 96, 32, bytes_le(npub + 4 * i, 4));
    }
}

/* absorb a byte string 32 bits at a time with the given frame byte and step count */
static void spec_absorb(spec_state_t *S, unsigned keybits, const unsigned char *key,
                        const unsigned char *data, size_t len, uint32_t framebyte, unsigned nsteps)
{
    size_t full = len / 4, rem = len % 4;
    for (size_t i = 0; i < full; ++i) {
        xor_bits(S, 32, 8, framebyte);
        spec_update(S, key, keybits, nsteps);
        xor_bits(S, 96, 32, bytes_le(data + 4 * i, 4));
    }
    if (rem) {
        xor_bits(S, 32, 8, framebyte);
        spec_update(S, key, keybits, nsteps);
        xor_bits(S, 96, 8 * (unsigned)rem, bytes_le(data + 4 * full, (unsigned)rem));
        xor_bits(S, 32, 2, (uint32_t)rem);           /* partial block length into bits 32..33 */
    }
}

static void spec_finalize(spec_state_t *S, unsigned keybits, const unsigned char *key,
                          unsigned char tag[8])
{
    uint32_t t;
    xor_bits(S, 32, 8, FRAME_FIN << 4);
    spec_update(S, key, keybits, steps_k(keybits));
    t = get_bits32(S, 64);
    for (unsigned i = 0; i < 4; ++i) tag[i] = (unsigned char)(t >> (8 * i));
    xor_bits(S, 32, 8, FRAME_FIN << 4);
    spec_update(S, key, keybits, 640);
    t = get_bits32(S, 64);
    for (unsigned i = 0; i < 4; ++i) tag[4 + i] = (unsigned char)(t >> (8 * i));
}

void spec_aead_encrypt(unsigned keybits, unsigned char *c, unsigned char tag[8],
                       const unsigned char *m, size_t mlen,
                       const unsigned char *ad, size_t adlen,
                       const unsigned char *npub, const unsigned char *key)
{
    spec_state_t S;
    size_t full = mlen / 4, rem = mlen % 4;
    spec_init(&S, keybits, key, npub, FRAME_NONCE << 4);
    spec_absorb(&S, keybits, key, ad, adlen, FRAME_AD << 4, 640);
    for (size_t i = 0; i <= full; ++i) {
        unsigned n = (i < full) ? 4u : (unsigned)rem;
        uint32_t mw, cw;
        if (!n) break;
        xor_bits(&S, 32, 8, FRAME_MSG << 4);
        spec_update(&S, key, keybits, steps_k(keybits));
        mw = bytes_le(m + 4 * i, n);
        xor_bits(&S, 96, 8 * n, mw);
        cw = get_bits32(&S, 64) ^ mw;
        for (unsigned j = 0; j < n; ++j) c[4 * i + j] = (unsigned char)(cw >> (8 * j));
        if (n < 4) xor_bits(&S, 32, 2, n);
    }
    spec_finalize(&S, keybits, key, tag);
}

void spec_aead_decrypt(unsigned keybits, unsigned char *m, unsigned char tag[8],
                       const unsigned char *c, size_t clen,
                       const unsigned char *ad, size_t adlen,
                       const unsigned char *npub, const unsigned char *key)
{
    spec_state_t S;
    size_t full = clen / 4, rem = clen % 4;
    spec_init(&S, keybits, key, npub, FRAME_NONCE << 4);
    spec_absorb(&S, keybits, key, ad, adlen, FRAME_AD << 4, 640);
    for (size_t i = 0; i <= full; ++i) {
        unsigned n = (i < full) ? 4u : (unsigned)rem;
        uint32_t mw;
        if (!n) break;
        xor_bits(&S, 32, 8, FRAME_MSG << 4);
        spec_update(&S, key, keybits, steps_k(keybits));
        mw = get_bits32(&S, 64) ^ bytes_le(c + 4 * i, n);
        if (n < 4) mw &= (1u << (8 * n)) - 1u;
        xor_bits(&S, 96, 8 * n, mw);
        for (unsigned j = 0; j < n; ++j) m[4 * i + j] = (unsigned char)(mw >> (8 * j));
        if (n < 4) xor_bits(&S, 32, 2, n);
    }
    spec_finalize(&S, keybits, key, tag);
}

/* ---- SIV (tools/sivref/README.md) --------------------------------------------------- */
void spec_siv_mac(unsigned keybits, unsigned char tag[8],
                  const unsigned char *m, size_t mlen,
                  const unsigned char *ad, size_t adlen,
                  const unsigned char *npub, const unsigned char *key)
{
    spec_state_t S;
    spec_init(&S, keybits, key, npub, 0x90);
    spec_absorb(&S, keybits, key, ad, adlen, 0x30, 640);
    /* the plaintext is authenticated exactly as AEAD would while encrypting it */
    spec_absorb(&S, keybits, key, m, mlen, 0x50, steps_k(keybits));
    spec_finalize(&S, keybits, key, tag);
}

void spec_siv_crypt(unsigned keybits, unsigned char *out, const unsigned char *in, size_t len,
                    const unsigned char *npub, const unsigned char tag[8],
                    const unsigned char *key)
{
    spec_state_t S;
    unsigned char nonce2[12];
    size_t nblocks = (len + 3) / 4;
    for (unsigned i = 0; i < 4; ++i) nonce2[i] = npub[i];
    for (unsigned i = 0; i < 8; ++i) nonce2[4 + i] = tag[i];
    spec_init(&S, keybits, key, nonce2, 0xB0);
    for (size_t i = 0; i < nblocks; ++i) {
        unsigned n = (len - 4 * i >= 4) ? 4u : (unsigned)(len - 4 * i);
        uint32_t ks;
        xor_bits(&S, 32, 8, 0xD0);
        spec_update(&S, key, keybits, steps_k(keybits));
        ks = get_bits32(&S, 64);
        for (unsigned j = 0; j < n; ++j) out[4 * i + j] = in[4 * i + j] ^ (unsigned char)(ks >> (8 * j));
    }
}

/* ---- MDPH hash (tools/hashref/README.md) ---------------------------------------------- */
static void spec_E(unsigned char out[16], const unsigned char K[32], const unsigned char P[16])
{
    spec_state_t S;
    for (unsigned j = 0; j < 4; ++j) S.w[j] = bytes_le(P + 4 * j, 4);
    spec_update(&S, K, 256, 2560);
    for (unsigned j = 0; j < 16; ++j) out[j] = (unsigned char)(S.w[j / 4] >> (8 * (j % 4)));
}

void spec_hash_compress(unsigned char L[16], unsigned char R[16], const unsigned char M[16],
                        unsigned domain)
{
    unsigned char K[32], Lx[16], L1[16], e0[16], e1[16];
    for (unsigned i = 0; i < 16; ++i) { K[i] = R[i]; K[16 + i] = M[i]; Lx[i] = L[i]; }
    Lx[0] ^= (unsigned char)domain;                     /* Compress(L ^ domain, R, M) */
    for (unsigned i = 0; i < 16; ++i) L1[i] = Lx[i];
    L1[0] ^= 1;
    spec_E(e0, K, Lx);
    spec_E(e1, K, L1);
    for (unsigned i = 0; i < 16; ++i) { L[i] = e0[i] ^ Lx[i]; R[i] = e1[i] ^ L1[i]; }
}

void spec_hash(unsigned char out[32], const unsigned char *in, size_t inlen)
{
    unsigned char L[16], R[16], M[16];
    size_t nfull = inlen / 16, rem = inlen % 16;   /* padded message has nfull+1 blocks */
    for (unsigned i = 0; i < 16; ++i) L[i] = R[i] = 0;
    for (size_t b = 0; b < nfull; ++b) {
        for (unsigned i = 0; i < 16; ++i) M[i] = in[16 * b + i];
        spec_hash_compress(L, R, M, 0);
    }
    for (unsigned i = 0; i < 16; ++i) M[i] = (i < rem) ? in[16 * nfull + i] : (i == rem ? 0x01 : 0x00);
    spec_hash_compress(L, R, M, 2);
    for (unsigned i = 0; i < 16; ++i) { out[i] = L[i]; out[16 + i] = R[i]; }
}
