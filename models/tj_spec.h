/* Specification models used as oracles.  Written from the TinyJAMBU v2 specification
 * text (bit-index style), tools/sivref/README.md and tools/hashref/README.md - not from
 * the library sources.  Under CBMC the keyed state update is the uninterpreted function
 * of Cut 1; natively it is the bit-serial NLFSR of the specification. */
#ifndef TJ_SPEC_H
#define TJ_SPEC_H
#include <stddef.h>
#include <stdint.h>

typedef struct { uint32_t w[4]; } spec_state_t;   /* bit i of the state = bit (i%32) of w[i/32] */

/* StateUpdate(S, K, nsteps): nsteps must be a multiple of 128; keybits in {128,192,256} */
void spec_update(spec_state_t *S, const unsigned char *key, unsigned keybits, unsigned nsteps);

/* The plain bit-serial NLFSR (never abstracted); used natively and by C05's Lemma A. */
void spec_update_bitserial(spec_state_t *S, const unsigned char *key, unsigned keybits, unsigned nsteps);

/* AEAD (TinyJAMBU v2 section 3): c gets mlen bytes, tag gets 8 bytes */
void spec_aead_encrypt(unsigned keybits, unsigned char *c, unsigned char tag[8],
                       const unsigned char *m, size_t mlen,
                       const unsigned char *ad, size_t adlen,
                       const unsigned char *npub, const unsigned char *key);
/* AEAD decryption of the body only: m gets clen bytes, tag gets the tag the spec computes */
void spec_aead_decrypt(unsigned keybits, unsigned char *m, unsigned char tag[8],
                       const unsigned char *c, size_t clen,
                       const unsigned char *ad, size_t adlen,
                       const unsigned char *npub, const unsigned char *key);

/* MAC used by the SIV mode: TinyJAMBU authentication pass with nonce frame 0x90 */
void spec_siv_mac(unsigned keybits, unsigned char tag[8],
                  const unsigned char *m, size_t mlen,
                  const unsigned char *ad, size_t adlen,
                  const unsigned char *npub, const unsigned char *key);
/* SIV keystream XOR (pass 2): out = in XOR KS(key, npub[0..3], tag) */
void spec_siv_crypt(unsigned keybits, unsigned char *out, const unsigned char *in, size_t len,
                    const unsigned char *npub, const unsigned char tag[8],
                    const unsigned char *key);

/* MDPH hash of tools/hashref/README.md */
void spec_hash(unsigned char out[32], const unsigned char *in, size_t inlen);
/* one compression: (L,R) <- Compress(L ^ domain, R, M) */
void spec_hash_compress(unsigned char L[16], unsigned char R[16], const unsigned char M[16],
                        unsigned domain);
#endif
