#include "kdf_spec.h"
#include "tj_spec.h"
#ifndef SPEC_MAXBUF
#define SPEC_MAXBUF 1400
#endif
#if defined(VERIF_CUT2) && defined(__CPROVER__)
void abs_H(unsigned char out[32], const unsigned char *in, size_t len);
void spec_H(unsigned char out[32], const unsigned char *in, size_t len) { abs_H(out, in, len); }
#else
void spec_H(unsigned char out[32], const unsigned char *in, size_t len) { spec_hash(out, in, len); }
#endif

/* RFC 2104: H(K XOR opad, H(K XOR ipad, text)), B = 64, keys longer than B are hashed */
void spec_hmac(unsigned char out[32], const unsigned char *key, size_t keylen,
               const unsigned char *msg, size_t msglen)
{
    unsigned char K0[64], inner[32];
    unsigned char buf[SPEC_MAXBUF];
    for (unsigned i = 0; i < 64; ++i) K0[i] = 0;
    if (keylen > 64) spec_H(K0, key, keylen);            /* 32 bytes, rest stays zero */
    else for (size_t i = 0; i < keylen; ++i) K0[i] = key[i];
    for (unsigned i = 0; i < 64; ++i) buf[i] = K0[i] ^ 0x36;
    for (size_t i = 0; i < msglen; ++i) buf[64 + i] = msg[i];
    spec_H(inner, buf, 64 + msglen);
    for (unsigned i = 0; i < 64; ++i) buf[i] = K0[i] ^ 0x5C;
    for (unsigned i = 0; i < 32; ++i) buf[64 + i] = inner[i];
    spec_H(out, buf, 96);
}

/* RFC 5869 */
void spec_hkdf_extract(unsigned char prk[32], const unsigned char *key, size_t keylen,
                       const unsigned char *salt, size_t saltlen)
{
    unsigned char zeros[32];
    for (unsigned i = 0; i < 32; ++i) zeros[i] = 0;
    if (saltlen == 0) { salt = zeros; saltlen = 32; }   /* "if not provided, HashLen zeros" */
    spec_hmac(prk, salt, saltlen, key, keylen);
}
void spec_hkdf_block(unsigned char T[32], const unsigned char prk[32], const unsigned char *Tprev,
                     const unsigned char *info, size_t infolen, unsigned n)
{
    unsigned char buf[SPEC_MAXBUF];
    size_t p = 0;
    if (n > 1) for (unsigned i = 0; i < 32; ++i) buf[p++] = Tprev[i];
    for (size_t i = 0; i < infolen; ++i) buf[p++] = info[i];
    buf[p++] = (unsigned char)n;
    spec_hmac(T, prk, 32, buf, p);
}
void spec_hkdf(unsigned char *out, size_t outlen, const unsigned char *key, size_t keylen,
               const unsigned char *salt, size_t saltlen, const unsigned char *info, size_t infolen)
{
    unsigned char prk[32], T[32], Tn[32];
    unsigned n = 0;
    spec_hkdf_extract(prk, key, keylen, salt, saltlen);
    for (size_t done = 0; done < outlen; ) {
        ++n;
        spec_hkdf_block(Tn, prk, T, info, infolen, n);
        for (unsigned i = 0; i < 32; ++i) T[i] = Tn[i];
        for (unsigned i = 0; i < 32 && done < outlen; ++i) out[done++] = T[i];
    }
}

/* RFC 8018 5.2 */
void spec_pbkdf2_F(unsigned char T[32], const unsigned char *pw, size_t pwlen,
                   const unsigned char *salt, size_t saltlen, unsigned long count, uint32_t i)
{
    unsigned char buf[SPEC_MAXBUF], U[32], Un[32];
    for (size_t j = 0; j < saltlen; ++j) buf[j] = salt[j];
    buf[saltlen] = (unsigned char)(i >> 24); buf[saltlen + 1] = (unsigned char)(i >> 16);
    buf[saltlen + 2] = (unsigned char)(i >> 8); buf[saltlen + 3] = (unsigned char)i;
    spec_hmac(U, pw, pwlen, buf, saltlen + 4);
    for (unsigned j = 0; j < 32; ++j) T[j] = U[j];
    for (unsigned long c = 2; c <= count; ++c) {
        spec_hmac(Un, pw, pwlen, U, 32);
        for (unsigned j = 0; j < 32; ++j) { U[j] = Un[j]; T[j] ^= U[j]; }
    }
}
void spec_pbkdf2(unsigned char *out, size_t outlen, const unsigned char *pw, size_t pwlen,
                 const unsigned char *salt, size_t saltlen, unsigned long count)
{
    unsigned char T[32];
    uint32_t i = 0;
    for (size_t done = 0; done < outlen; ) {
        ++i;
        spec_pbkdf2_F(T, pw, pwlen, salt, saltlen, count, i);
        for (unsigned j = 0; j < 32 && done < outlen; ++j) out[done++] = T[j];
    }
}

/* SP 800-90A r1 10.3.1 Hash_df with no_of_bits_to_return = 256 = outlen: one block,
 * counter = 0x01, no_of_bits as a 32-bit big-endian integer */
void spec_hash_df(unsigned char out[32], const unsigned char *input, size_t len)
{
    unsigned char buf[SPEC_MAXBUF];
    buf[0] = 0x01; buf[1] = 0x00; buf[2] = 0x00; buf[3] = 0x01; buf[4] = 0x00;
    for (size_t i = 0; i < len; ++i) buf[5 + i] = input[i];
    spec_H(out, buf, 5 + len);
}
static void drbg_new_C(spec_drbg_t *d)
{
    unsigned char buf[33];
    buf[0] = 0x00;
    for (unsigned i = 0; i < 32; ++i) buf[1 + i] = d->V[i];
    spec_hash_df(d->C, buf, 33);
}
void spec_drbg_instantiate(spec_drbg_t *d, const unsigned char entropy[32],
                           const unsigned char *custom, size_t custom_len)
{
    unsigned char buf[SPEC_MAXBUF];
    for (unsigned i = 0; i < 32; ++i) buf[i] = entropy[i];
    for (size_t i = 0; i < custom_len; ++i) buf[32 + i] = custom[i];
    spec_hash_df(d->V, buf, 32 + custom_len);
    drbg_new_C(d);
    d->reseed_counter = 1;
}
void spec_drbg_reseed(spec_drbg_t *d, const unsigned char entropy[32])
{
    unsigned char buf[65];
    buf[0] = 0x01;
    for (unsigned i = 0; i < 32; ++i) { buf[1 + i] = d->V[i]; buf[33 + i] = entropy[i]; }
    spec_hash_df(d->V, buf, 65);
    drbg_new_C(d);
    d->reseed_counter = 1;
}
void spec_drbg_feed(spec_drbg_t *d, const unsigned char *data, size_t len)
{
    unsigned char buf[SPEC_MAXBUF];
    buf[0] = 0x01;
    for (unsigned i = 0; i < 32; ++i) buf[1 + i] = d->V[i];
    for (size_t i = 0; i < len; ++i) buf[33 + i] = data[i];
    spec_hash_df(d->V, buf, 33 + len);
    drbg_new_C(d);
    /* documented deviation: feed does not reset the counter, it only brings the reseed closer;
     * a 32-bit counter therefore saturates instead of wrapping */
    if (d->reseed_counter != 0xFFFFFFFFu) d->reseed_counter += 1;
}
void spec_drbg_block(spec_drbg_t *d, unsigned char out[32])
{
    unsigned char buf[33], Hh[32];
    unsigned carry = 0;
    spec_H(out, d->V, 32);
    buf[0] = 0x03;
    for (unsigned i = 0; i < 32; ++i) buf[1 + i] = d->V[i];
    spec_H(Hh, buf, 33);
    /* V = (V + H + C + reseed_counter) mod 2^256, big-endian integers */
    for (int i = 31; i >= 0; --i) {
        unsigned rc = (i >= 28) ? (d->reseed_counter >> (8 * (31 - i))) & 0xFFu : 0u;
        unsigned sum = (unsigned)d->V[i] + Hh[i] + d->C[i] + rc + carry;
        d->V[i] = (unsigned char)sum;
        carry = sum >> 8;
    }
    d->reseed_counter += 1;
}
