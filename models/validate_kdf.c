/* Native differential validation of the KDF / DRBG oracles (models/kdf_spec.c over the MDPH model with the
 * bit-serial NLFSR) against the natively built real library on seeded pseudo-random inputs.  HKDF, PBKDF2 and the
 * PRNG have no KAT files in the repository; the unit-test vectors of test/unit/test-hkdf.c / test-pbkdf2.c
 * exercise the same entry points.  A mismatch means the oracle (or the library) is wrong: setup fails. */
#include "TinyJAMBU.h"
#include "kdf_spec.h"
#include <stdio.h>
#include <string.h>
#include <stdlib.h>
static uint64_t rng = 88172645463325252ULL;
static unsigned rnd(void) { rng ^= rng << 13; rng ^= rng >> 7; rng ^= rng << 17; return (unsigned)(rng >> 20); }
static void fill(unsigned char *p, size_t n) { for (size_t i = 0; i < n; ++i) p[i] = (unsigned char)rnd(); }
static unsigned char ent[8][32]; static int nent; static size_t deliver[8];
static size_t cb(void *ud, unsigned char *buf, size_t size) { (void)ud; (void)size; memcpy(buf, ent[nent], deliver[nent]); return deliver[nent++]; }
int main(void)
{
    unsigned char key[200], salt[200], info[80], a[400], b[400];
    int bad = 0, n = 0;
    for (int t = 0; t < 40; ++t) {
        size_t kl = rnd() % 130, sl = rnd() % 100, il = rnd() % 70, ol = rnd() % 300;
        fill(key, kl); fill(salt, sl); fill(info, il);
        tinyjambu_hkdf(a, ol, key, kl, salt, sl, info, il);
        spec_hkdf(b, ol, key, kl, salt, sl, info, il);
        if (memcmp(a, b, ol)) { ++bad; printf("HKDF mismatch %d\n", t); } ++n;
        ol = rnd() % 100; unsigned long c = rnd() % 6;
        tinyjambu_pbkdf2(a, ol, key, kl, salt, sl, c);
        spec_pbkdf2(b, ol, key, kl, salt, sl, c);
        if (memcmp(a, b, ol)) { ++bad; printf("PBKDF2 mismatch %d\n", t); } ++n;
        tinyjambu_hmac(a, key, kl, salt, sl); spec_hmac(b, key, kl, salt, sl);
        if (memcmp(a, b, 32)) { ++bad; printf("HMAC mismatch %d\n", t); } ++n;
    }
    for (int t = 0; t < 20; ++t) {          /* DRBG: init, generate across an automatic reseed, feed, reseed, short deliveries */
        tinyjambu_prng_state_t st; spec_drbg_t d; unsigned char e[32], blk[32];
        size_t cl = rnd() % 9; uint32_t limit;
        nent = 0; for (int i = 0; i < 8; ++i) { fill(ent[i], 32); deliver[i] = (rnd() % 4) ? 32 : rnd() % 33; }
        fill(key, cl);
        int r = tinyjambu_prng_init_user(&st, cb, 0, key, cl);
        memset(e, 0, 32); memcpy(e, ent[0], deliver[0]);
        spec_drbg_instantiate(&d, e, key, cl);
        if ((r != 0) != (deliver[0] == 32)) { ++bad; printf("init status %d\n", t); }
        tinyjambu_prng_set_reseed_limit(&st, 64); limit = 2;
        int used = 1;
        for (int op = 0; op < 6; ++op) {
            size_t sz = rnd() % 100;
            if (op == 3) { size_t fl = rnd() % 20; fill(salt, fl); tinyjambu_prng_feed(&st, salt, fl); spec_drbg_feed(&d, salt, fl); continue; }
            if (op == 4) { tinyjambu_prng_reseed(&st); memcpy(e, d.V, 32); memcpy(e, ent[used], deliver[used]); ++used; spec_drbg_reseed(&d, e); continue; }
            tinyjambu_prng_generate(&st, a, sz);
            for (size_t done = 0; done < sz; ) {
                size_t k = sz - done < 32 ? sz - done : 32;
                if (d.reseed_counter > limit) { memcpy(e, d.V, 32); memcpy(e, ent[used], deliver[used]); ++used; spec_drbg_reseed(&d, e); }
                spec_drbg_block(&d, blk); memcpy(b + done, blk, k); done += k;
            }
            if (memcmp(a, b, sz)) { ++bad; printf("DRBG mismatch t=%d op=%d\n", t, op); } ++n;
            if (used > 6) break;
        }
        if (used != nent) { ++bad; printf("DRBG request count t=%d %d %d\n", t, used, nent); }
    }
    printf("kdf/drbg oracle validation: %d comparisons, %d mismatches\n", n, bad);
    return bad ? 1 : 0;
}
