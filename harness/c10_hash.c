/* C10 / C11: TinyJAMBU-Hash equals the MDPH model.
 * -DN=len -DC1=a -DC2=b : message of N symbolic bytes fed as update(C1), update(C2), update(N-C1-C2)
 *   (C1 = C2 = 0 still issues the zero-length updates, the first with a NULL pointer)
 * -DREINIT_PRE=k : after init, k arbitrary bytes are absorbed and the state is restarted with tinyjambu_hash_reinit()
 * -DONESHOT : use tinyjambu_hash() instead (its local state object is uninitialised memory)
 * (arbitrary prior contents / padding of the state object are covered by C11's init and step lemmas) */
#include "verif.h"
#include "TinyJAMBU.h"
#include "tj_spec.h"
IN_DECL(msg, N);
#ifdef REINIT_PRE
IN_DECL(junk, REINIT_PRE);
#endif

VERIF_MAIN_BEGIN
    unsigned char *msg, *out;
    unsigned char exp[32];
    IN_BYTES(msg, msg, N);
    out = verif_alloc(32);
#ifdef ONESHOT
    tinyjambu_hash(out, msg, N);
#else
    {
        tinyjambu_hash_state_t st_obj, *st = &st_obj;   /* typed object: see DESIGN 5.2 */
        for (unsigned i = 0; i < 7; ++i) st->s[i] = 0;   /* typed writes only (DESIGN 5.2) */
        tinyjambu_hash_init(st);
#ifdef REINIT_PRE   /* an abandoned message of REINIT_PRE arbitrary bytes, then reinit: the digest is that of the new message alone */
        { unsigned char *junk; IN_BYTES(junk, junk, REINIT_PRE); tinyjambu_hash_update(st, junk, REINIT_PRE); tinyjambu_hash_reinit(st); }
#endif
        tinyjambu_hash_update(st, C1 ? msg : 0, C1);
        tinyjambu_hash_update(st, N ? msg + C1 : 0, C2);
        tinyjambu_hash_update(st, N ? msg + C1 + C2 : 0, N - C1 - C2);
        tinyjambu_hash_finalize(st, out);
    }
#endif
    spec_hash(exp, IN_msg, N);
    for (size_t i = 0; i < 32; ++i) CHECK(out[i] == exp[i], "digest equals the MDPH specification");
    for (size_t i = 0; i < N; ++i) CHECK(msg[i] == IN_msg[i], "input unmodified");
VERIF_MAIN_END
