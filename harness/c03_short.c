/* C03(d) / C08: packets shorter than the tag are rejected with a negative result and
 * nothing is written to the plaintext buffer.  -DKS -DMODE -DCLEN=0..7 -DADLEN */
#include "verif.h"
#include "TinyJAMBU.h"
#define CAT5_(a,b,c,d,e) a##b##c##d##e
#define CAT5(a,b,c,d,e) CAT5_(a,b,c,d,e)
#define DEC CAT5(tinyjambu_, KS, _, MODE, _decrypt)
#define KEYLEN (KS/8)
IN_DECL(key, KEYLEN); IN_DECL(npub, 12); IN_DECL(ad, ADLEN); IN_DECL(c, CLEN); IN_DECL(mprior, 16);
IN_U64_DECL(mlen0);

VERIF_MAIN_BEGIN
    unsigned char *key, *npub, *ad, *c, *m;
    size_t mlen;
    int r;
    IN_BYTES(key, key, KEYLEN); IN_BYTES(npub, npub, 12); IN_BYTES(ad, ad, ADLEN);
    IN_BYTES(c, c, CLEN);                      /* exactly CLEN bytes: NULL when CLEN == 0 */
    IN_BYTES(m, mprior, 16);
    mlen = IN_U64(mlen0);
    r = DEC(m, &mlen, c, CLEN, ad, ADLEN, npub, key);
    CHECK(r < 0, "input shorter than 8 bytes is rejected with a negative result");
    for (size_t i = 0; i < 16; ++i) CHECK(m[i] == IN_mprior[i], "no plaintext written on short input");
    for (size_t i = 0; i < CLEN; ++i) CHECK(c[i] == IN_c[i], "input unmodified");
VERIF_MAIN_END
