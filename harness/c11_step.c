/* C11: hash streaming as an inductive step over an ARBITRARY valid state.
 * The TU is #included to reach the private state layout.
 * abs(state) = (L = s[0..3], R = ~k[0..3], pending = block[0..posn)), invariant posn < 16.
 * -DVARIANT=
 *   1 step    : -DPOSN -DLEN : update(in, LEN) from any state with that posn == byte-wise fold
 *   2 finalize: -DPOSN       : finalize from any state == model finalisation of abs(state)
 *   3 init    : init / reinit on 56 arbitrary bytes gives abs = (0, 0, empty)
 *   4 isolate : -DOP         : an operation on a second state leaves the first untouched
 *   5 fold    : -DLEN        : model-vs-model: byte-wise fold + finalisation == spec_hash (block form)
 *   6 free/NULL: hash_free(NULL) is a no-op, update(NULL,0) is the identity on the whole object */
#include "verif.h"
#include "tj_spec.h"
#include "tinyjambu-hash.c"

typedef struct { unsigned char L[16], R[16], pend[16]; unsigned n; } abs_t;

static void abs_of(abs_t *a, const tinyjambu_hash_state_t *st)
{
    const tinyjambu_hash_state_p_t *p = (const tinyjambu_hash_state_p_t *)st;
    for (unsigned i = 0; i < 16; ++i) {
        a->L[i] = (unsigned char)(p->state.s[i / 4] >> (8 * (i % 4)));
        a->R[i] = (unsigned char)((~p->state.k[i / 4]) >> (8 * (i % 4)));
        a->pend[i] = ((const unsigned char *)(p->state.k))[16 + i];
    }
    a->n = p->posn;
}
static void fold_byte(abs_t *a, unsigned char b)
{
    a->pend[a->n++] = b;
    if (a->n == 16) { spec_hash_compress(a->L, a->R, a->pend, 0); a->n = 0; }
}
static void fold_final(abs_t *a, unsigned char out[32])
{
    unsigned char M[16];
    for (unsigned i = 0; i < 16; ++i) M[i] = i < a->n ? a->pend[i] : (i == a->n ? 1 : 0);
    spec_hash_compress(a->L, a->R, M, 2);
    for (unsigned i = 0; i < 16; ++i) { out[i] = a->L[i]; out[16 + i] = a->R[i]; }
}
#ifndef POSN
#define POSN 0
#endif
#ifndef LEN
#define LEN 0
#endif
IN_DECL(L, 16); IN_DECL(R, 16); IN_DECL(blk, 16); IN_DECL(in, LEN); uint64_t IN_raw[7], IN_raw2[7]; IN_U32_DECL(posn0);

/* An arbitrary valid state.  The object is exactly the PRIVATE struct (52 bytes; the public
 * type has 4 more padding bytes): any access of init/update/finalize to the padding is an
 * out-of-bounds failure, which is how "the result does not depend on the padding" is decided.
 * All fields are written with typed stores (DESIGN 5.2). */
static tinyjambu_hash_state_p_t st_obj;
static tinyjambu_hash_state_t *mk_state(void)
{
    tinyjambu_hash_state_p_t *p = &st_obj;
    unsigned char tmp[16];
    IN_FILL(tmp, L, 16);
    for (unsigned j = 0; j < 4; ++j) p->state.s[j] = le_load_word32(tmp + 4 * j);
    IN_FILL(tmp, R, 16);
    for (unsigned j = 0; j < 4; ++j) p->state.k[j] = ~le_load_word32(tmp + 4 * j);
    IN_FILL(tmp, blk, 16);                                      /* bytes beyond posn are arbitrary */
    for (unsigned j = 0; j < 4; ++j) p->state.k[4 + j] = le_load_word32(tmp + 4 * j);  /* little-endian host */
    p->posn = POSN;
    return (tinyjambu_hash_state_t *)p;
}

VERIF_MAIN_BEGIN
#if VARIANT == 1
    tinyjambu_hash_state_t *st = mk_state();
    unsigned char *in;
    abs_t a, b;
    IN_BYTES(in, in, LEN);
    abs_of(&a, st);
    tinyjambu_hash_update(st, in, LEN);
    for (size_t i = 0; i < LEN; ++i) fold_byte(&a, IN_in[i]);
    abs_of(&b, st);
    CHECK(b.n < 16, "invariant posn < 16 preserved");
    CHECK(b.n == a.n, "pending length follows the fold");
    for (unsigned i = 0; i < 16; ++i) CHECK(b.L[i] == a.L[i] && b.R[i] == a.R[i], "chaining value follows the fold");
    for (unsigned i = 0; i < 16; ++i) if (i < a.n) CHECK(b.pend[i] == a.pend[i], "pending bytes follow the fold");
    for (size_t i = 0; i < LEN; ++i) CHECK(in[i] == IN_in[i], "input unmodified");
#elif VARIANT == 2
    tinyjambu_hash_state_t *st = mk_state();
    unsigned char *out = verif_alloc(32), exp[32];
    abs_t a;
    abs_of(&a, st);
    tinyjambu_hash_finalize(st, out);
    fold_final(&a, exp);
    for (unsigned i = 0; i < 32; ++i) CHECK(out[i] == exp[i], "digest is the model finalisation of the abstract state");
#elif VARIANT == 3
    tinyjambu_hash_state_t *st = mk_state();
    abs_t a;
    st_obj.posn = IN_U32(posn0);               /* any prior posn, valid or not */
#ifdef REINIT
    tinyjambu_hash_reinit(st);
#else
    tinyjambu_hash_init(st);
#endif
    abs_of(&a, st);
    CHECK(a.n == 0, "init: nothing pending");
    for (unsigned i = 0; i < 16; ++i) CHECK(a.L[i] == 0 && a.R[i] == 0, "init: L = R = 0");
#elif VARIANT == 4
    tinyjambu_hash_state_t A_obj, *A = &A_obj;
    tinyjambu_hash_state_t *B = mk_state();
    unsigned char *in, *out = verif_alloc(32);
    for (unsigned i = 0; i < 7; ++i) A->s[i] = IN_U64_AT(raw, i);
    IN_BYTES(in, in, LEN);
#if OP == 0
    tinyjambu_hash_init(B);
#elif OP == 1
    tinyjambu_hash_update(B, in, LEN);
#elif OP == 2
    tinyjambu_hash_finalize(B, out);
#elif OP == 3
    { tinyjambu_hash_state_t C_obj; for (unsigned i = 0; i < 7; ++i) C_obj.s[i] = IN_U64_AT(raw2, i); tinyjambu_hash_free(&C_obj); (void)B; }
#else
    tinyjambu_hash(out, in, LEN);
#endif
    for (unsigned i = 0; i < 7; ++i) CHECK(A->s[i] == IN_raw[i], "operations on one state never affect another");
#elif VARIANT == 5
    unsigned char msg[LEN + 1], d1[32], d2[32];
    abs_t a;
    IN_FILL(msg, in, LEN);
    for (unsigned i = 0; i < 16; ++i) a.L[i] = a.R[i] = a.pend[i] = 0;
    a.n = 0;
    for (size_t i = 0; i < LEN; ++i) fold_byte(&a, msg[i]);
    fold_final(&a, d1);
    spec_hash(d2, msg, LEN);
    for (unsigned i = 0; i < 32; ++i) CHECK(d1[i] == d2[i], "byte-wise fold equals the README block form");
#elif VARIANT == 6
    tinyjambu_hash_state_t *st = mk_state();
    tinyjambu_hash_state_p_t before = st_obj;
    tinyjambu_hash_free(0);
    tinyjambu_hash_update(st, 0, 0);
    for (unsigned i = 0; i < 4; ++i) CHECK(st_obj.state.s[i] == before.state.s[i], "update(NULL, 0) leaves the state untouched");
    for (unsigned i = 0; i < 8; ++i) CHECK(st_obj.state.k[i] == before.state.k[i], "update(NULL, 0) leaves the state untouched");
    CHECK(st_obj.posn == before.posn, "update(NULL, 0) leaves the state untouched");
#endif
VERIF_MAIN_END
