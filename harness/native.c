/* Native replay support: IN_* inputs come from a replay file (argv[1], lines "name=hex"
 * for byte strings and "name=0x.." / decimal for scalars); names missing from the file are
 * drawn from a xorshift PRNG seeded by VERIF_SEED (random-neighbour fallback). */
#include <stdio.h>
#include <stdlib.h>
#include <string.h>
#include <stdint.h>

static char *names[256];
static char *values[256];
static int nent;
static uint64_t rng = 0x9E3779B97F4A7C15ULL;

static uint64_t next_rand(void)
{
    rng ^= rng << 13; rng ^= rng >> 7; rng ^= rng << 17;
    return rng;
}

void verif_native_init(int argc, char **argv)
{
    const char *seed = getenv("VERIF_SEED");
    if (seed) rng ^= strtoull(seed, 0, 0) * 0x2545F4914F6CDD1DULL + 1;
    if (!rng) rng = 1;
    if (argc > 1) {
        FILE *f = fopen(argv[1], "r");
        char *line = 0; size_t cap = 0;
        if (!f) { perror(argv[1]); exit(2); }
        while (getline(&line, &cap, f) > 0 && nent < 256) {
            char *eq = strchr(line, '=');
            if (!eq || line[0] == '#') continue;
            *eq = 0;
            eq[1 + strcspn(eq + 1, "\r\n")] = 0;
            names[nent] = strdup(line);
            values[nent] = strdup(eq + 1);
            ++nent;
        }
        fclose(f);
    }
}

static const char *lookup(const char *name)
{
    for (int i = 0; i < nent; ++i)
        if (!strcmp(names[i], name)) return values[i];
    return 0;
}

void verif_native_bytes(const char *name, unsigned char *p, size_t n)
{
    const char *v = lookup(name);
    size_t have = v ? strlen(v) / 2 : 0;
    for (size_t i = 0; i < n; ++i) {
        if (i < have) {
            unsigned x; sscanf(v + 2 * i, "%2x", &x); p[i] = (unsigned char)x;
        } else {
            p[i] = (unsigned char)(next_rand() >> 24);
        }
    }
}

uint64_t verif_native_u64(const char *name)
{
    const char *v = lookup(name);
    if (v) return strtoull(v, 0, 0);
    return next_rand();
}

uint64_t verif_native_u64_idx(const char *name, unsigned idx)
{
    char key[128];
    const char *v;
    snprintf(key, sizeof key, "%s[%u]", name, idx);
    v = lookup(key);
    if (v) return strtoull(v, 0, 0);
    v = lookup(name);                 /* small values are stored as a hex byte string */
    if (v && strlen(v) / 2 > idx) { unsigned x; sscanf(v + 2 * idx, "%2x", &x); return x; }
    return next_rand();
}
