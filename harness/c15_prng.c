/* C15 / C16 / C17: the PRNG as one step from an ARBITRARY state, over the abstract hash (Cut 2).
 * The TU is #included to reach the private state layout; the state object is exactly the private
 * struct (88 of the public 96 bytes) except for init, which memsets the public size.
 * -DVARIANT:
 *  1 generate(SIZE): output and post-state == SP 800-90A Hash_DRBG model (per-block variant), the
 *    entropy callback log == the model's; counter/limit: -DCTR -DLIMIT concrete, or -DSYM (symbolic,
 *    constrained by the C16 invariant); ghost E = bytes emitted since the last entropy request:
 *    invariant preserved and E <= 32*limit at every request and at return
 *  2 feed(LEN)   3 reseed   4 init_user(CUSTOMLEN) on 96 arbitrary bytes   5 set_reseed_limit(symbolic)
 *  6 init_user(NULL callback) == init() with the system source stubbed (C17)
 *  7 negated dependence: new state must depend on the OLD state (feed / reseed), MUSTFAIL
 * -DK = number of bytes the entropy source delivers (0..32) on each request */
#include "verif.h"
#include "kdf_spec.h"
#ifdef __CPROVER__
extern unsigned abs_oneshot;            /* ghost kept by the abstract hash: number of one-shot tinyjambu_hash() calls */
#include "tinyjambu-prng.c"
#else
/* native replay: count the one-shot hash calls made by the PRNG (one per output block) */
unsigned abs_oneshot;
#define tinyjambu_hash counted_tinyjambu_hash
#include "tinyjambu-prng.c"
#undef tinyjambu_hash
void tinyjambu_hash(unsigned char *out, const unsigned char *in, size_t inlen);
void counted_tinyjambu_hash(unsigned char *out, const unsigned char *in, size_t inlen)
{ ++abs_oneshot; tinyjambu_hash(out, in, inlen); }
#endif
#ifndef KDELIV
#define KDELIV 32
#endif
#ifndef SIZE
#define SIZE 0
#endif
#ifndef LEN
#define LEN 0
#endif
#ifndef CUSTOMLEN
#define CUSTOMLEN 0
#endif
#define MAXREQ 4
IN_DECL(V, 32); IN_DECL(C, 32); IN_DECL(data, LEN + CUSTOMLEN); IN_DECL(ent, 32 * MAXREQ); IN_DECL(outprior, SIZE);
IN_DECL(V2, 32);
IN_U32_DECL(ctr); IN_U32_DECL(limit); IN_U64_DECL(E); IN_U64_DECL(x); IN_U32_DECL(trng_ok); uint64_t IN_raw[12];

/* ---- entropy callback stub: delivers KDELIV symbolic bytes, returns KDELIV ---------------------------- */
static int nreq;
static unsigned char seen_before[MAXREQ][32];
static size_t seen_size[MAXREQ];
static void *seen_ud[MAXREQ];
static uint64_t ghostE, ghost_limit32;   /* bytes emitted since the last request */
static unsigned blocks_at_mark;
static int ghost_bad;
static int cookie;
static size_t entropy_cb(void *ud, unsigned char *buf, size_t size)
{
    int id = nreq++;
#ifdef SYM
    /* symbolic counter / limit: the request index is path-dependent; deliver from slot 0, log nothing */
    (void)id; (void)ud; (void)size;
    for (unsigned i = 0; i < KDELIV; ++i) buf[i] = IN_ent[i];
    if (0) {
#else
    if (id < MAXREQ) {
#endif
        seen_size[id] = size; seen_ud[id] = ud;
        for (unsigned i = 0; i < 32; ++i) seen_before[id][i] = buf[i];
        for (unsigned i = 0; i < KDELIV; ++i) buf[i] = IN_ent[32 * id + i];
    }
    /* C16 ghost: everything emitted up to now since the previous request */
    /* bytes carried over from earlier calls were checked against the limit in force when they were
     * emitted (a lowered limit takes effect at the next block); so check only if this call emitted */
    if (abs_oneshot - blocks_at_mark > 0) {
        ghostE += 32u * (uint64_t)(abs_oneshot - blocks_at_mark);
        if (ghostE > ghost_limit32) ghost_bad = 1;
    }
    ghostE = 0; blocks_at_mark = abs_oneshot;
    return KDELIV;
}
/* system source stub for variant 6 */
static int trng_calls;
int tinyjambu_trng_generate(unsigned char *out)
{
    ++trng_calls;
    for (unsigned i = 0; i < 32; ++i) out[i] = IN_ent[i];
    return (int)(IN_trng_ok & 1);
}

static tinyjambu_prng_state_p_t ps;
static void mk_state(uint32_t ctr, uint32_t limit)
{
    IN_FILL(ps.V, V, 32); IN_FILL(ps.C, C, 32);
    ps.reseed_counter = ctr; ps.reseed_limit = limit;
    ps.callback = entropy_cb; ps.user_data = &cookie;
}
static void check_state(const spec_drbg_t *d, uint32_t limit)
{
    for (unsigned i = 0; i < 32; ++i) CHECK(ps.V[i] == d->V[i], "post-state V equals the Hash_DRBG model");
    for (unsigned i = 0; i < 32; ++i) CHECK(ps.C[i] == d->C[i], "post-state C equals the Hash_DRBG model");
    CHECK(ps.reseed_counter == d->reseed_counter, "post-state reseed counter equals the model");
    CHECK(ps.reseed_limit == limit, "reseed limit as expected");
    CHECK(ps.callback == entropy_cb && ps.user_data == &cookie, "callback and user data preserved");
}
/* model reseed: entropy_input = old V overwritten by the delivered prefix */
static void model_reseed(spec_drbg_t *d, int id)
{
    unsigned char e[32];
    for (unsigned i = 0; i < 32; ++i) e[i] = (i < KDELIV) ? IN_ent[32 * id + i] : d->V[i];
    spec_drbg_reseed(d, e);
}

VERIF_MAIN_BEGIN
    unsigned char *out, *data;
    spec_drbg_t d;
    for (unsigned i = 0; i < 32 * MAXREQ; ++i) IN_ent[i] =
#ifdef __CPROVER__
        nondet_uchar();
#else
        0;
    verif_native_bytes("ent", IN_ent, 32 * MAXREQ);
#endif
#if VARIANT == 1
    {
        uint32_t ctr, limit;
        uint64_t E0;
        int req = 0;
        unsigned char dprev[32];
#ifdef SYM
        ctr = IN_U32(ctr); limit = IN_U32(limit); E0 = IN_U64(E);
        ASSUME(ctr >= 1 && limit >= 1 && limit <= 32768);        /* C16 invariant I */
        ASSUME(E0 <= 32ull * (uint64_t)(ctr - 1));
#else
        ctr = CTR; limit = LIMIT; E0 = 32ull * (CTR - 1);
#endif
        mk_state(ctr, limit);
        IN_BYTES(out, outprior, SIZE);
        ghostE = E0; ghost_limit32 = 32ull * limit; blocks_at_mark = abs_oneshot;
        for (unsigned i = 0; i < 32; ++i) { d.V[i] = IN_V[i]; d.C[i] = IN_C[i]; }
        d.reseed_counter = ctr;
        tinyjambu_prng_generate((tinyjambu_prng_state_t *)&ps, out, SIZE);
#ifndef SYM   /* C15: the model, block by block (with symbolic counter / limit only the C16 accounting is checked) */
        for (size_t done = 0; done < SIZE; ) {
            unsigned char blk[32];
            size_t n = SIZE - done < 32 ? SIZE - done : 32;
            if (d.reseed_counter > limit) {
                CHECK(req < MAXREQ, "harness bound on entropy requests");
                for (unsigned i = 0; i < 32; ++i) dprev[i] = d.V[i];
                if (req < nreq && req < MAXREQ) {
                    CHECK(seen_size[req] == 32 && seen_ud[req] == &cookie, "entropy request asks for 32 bytes with the user data");
                    for (unsigned i = 0; i < 32; ++i) CHECK(seen_before[req][i] == dprev[i], "reseed buffer holds the old V before the request");
                }
                model_reseed(&d, req);
                ++req;
            }
            spec_drbg_block(&d, blk);
            for (size_t i = 0; i < n; ++i) CHECK(out[done + i] == blk[i], "output block is Hash(V) of the model state");
            done += n;
        }
        CHECK(nreq == req, "entropy is requested exactly when the model reseeds");
        check_state(&d, limit);
#else
        (void)req; (void)dprev;
        CHECK(ps.reseed_limit == limit, "generate leaves the limit alone");
#endif
        /* C16: ghost accounting */
        ghostE += 32u * (uint64_t)(abs_oneshot - blocks_at_mark);
        if (SIZE % 32) ghostE -= 32 - (SIZE % 32);                /* the last block was partial */
        CHECK(!ghost_bad, "never more than 32*limit bytes between two entropy requests (checked at each request)");
        if (SIZE > 0) CHECK(ghostE <= 32ull * limit, "never more than 32*limit bytes since the last entropy request (at return)");
        CHECK(ps.reseed_counter >= 1 && ghostE <= 32ull * (uint64_t)(ps.reseed_counter - 1), "invariant I preserved by generate");
    }
#elif VARIANT == 2
    {
        uint32_t ctr = IN_U32(ctr), limit = IN_U32(limit);
#ifndef NOWRAP_ASSUME
        ASSUME(ctr >= 1 && limit >= 1 && limit <= 32768);
#endif
        mk_state(ctr, limit);
        IN_BYTES(data, data, LEN);
        for (unsigned i = 0; i < 32; ++i) { d.V[i] = IN_V[i]; d.C[i] = IN_C[i]; }
        d.reseed_counter = ctr;
        tinyjambu_prng_feed((tinyjambu_prng_state_t *)&ps, data, LEN);
        spec_drbg_feed(&d, IN_data, LEN);
        CHECK(nreq == 0, "feed never requests entropy");
        for (unsigned i = 0; i < 32; ++i) CHECK(ps.V[i] == d.V[i] && ps.C[i] == d.C[i], "feed: V = Hash_df(01 || V || data), C = Hash_df(00 || V)");
        CHECK(ps.reseed_limit == limit && ps.callback == entropy_cb && ps.user_data == &cookie, "feed preserves limit and callback");
        /* C16: feeding only ever brings the next reseed closer; invariant 1 <= counter preserved */
        CHECK(ps.reseed_counter >= ctr && (ps.reseed_counter > ctr || ps.reseed_counter > limit),
              "feed only ever brings the next reseed closer (counter never decreases; strictly increases unless a reseed is already due)");
        CHECK(ps.reseed_counter == d.reseed_counter, "feed: counter follows the model");
        for (size_t i = 0; i < LEN; ++i) CHECK(data[i] == IN_data[i], "fed data unmodified");
    }
#elif VARIANT == 3
    {
        uint32_t ctr = IN_U32(ctr), limit = IN_U32(limit);
        int r;
        mk_state(ctr, limit);
        for (unsigned i = 0; i < 32; ++i) { d.V[i] = IN_V[i]; d.C[i] = IN_C[i]; }
        d.reseed_counter = ctr;
        r = tinyjambu_prng_reseed((tinyjambu_prng_state_t *)&ps);
        CHECK(nreq == 1 && seen_size[0] == 32 && seen_ud[0] == &cookie, "reseed makes exactly one 32-byte request");
        for (unsigned i = 0; i < 32; ++i) CHECK(seen_before[0][i] == IN_V[i], "reseed buffer holds the old V before the request");
        model_reseed(&d, 0);
        check_state(&d, limit);
        CHECK(ps.reseed_counter == 1, "reseed resets the counter to 1");
        CHECK((r != 0) == (KDELIV == 32), "reseed reports success exactly when 32 bytes were delivered");
    }
#elif VARIANT == 4
    {
        static tinyjambu_prng_state_t pub;             /* init memsets the public size */
        tinyjambu_prng_state_p_t *pp = (tinyjambu_prng_state_p_t *)&pub;
        unsigned char e[32];
        int r;
        for (unsigned i = 0; i < 12; ++i) pub.s[i] = IN_U64_AT(raw, i);   /* arbitrary prior contents */
        IN_BYTES(data, data, CUSTOMLEN);
        r = tinyjambu_prng_init_user(&pub, entropy_cb, &cookie, data, CUSTOMLEN);
        CHECK(nreq == 1 && seen_size[0] == 32 && seen_ud[0] == &cookie, "init makes exactly one 32-byte request");
        for (unsigned i = 0; i < 32; ++i) CHECK(seen_before[0][i] == 0, "seed buffer is zeroed before the request");
        for (unsigned i = 0; i < 32; ++i) e[i] = (i < KDELIV) ? IN_ent[i] : 0;
        spec_drbg_instantiate(&d, e, IN_data, CUSTOMLEN);
        for (unsigned i = 0; i < 32; ++i) CHECK(pp->V[i] == d.V[i] && pp->C[i] == d.C[i], "init: V = Hash_df(entropy || custom), C = Hash_df(00 || V)");
        CHECK(pp->reseed_counter == 1 && pp->reseed_limit == 32, "init: counter 1, limit 32 blocks = 1024 bytes");
        CHECK(pp->callback == entropy_cb && pp->user_data == &cookie, "init stores callback and user data");
        CHECK((r != 0) == (KDELIV == 32), "init reports success exactly when 32 bytes were delivered");
    }
#elif VARIANT == 5
    {
        uint32_t ctr = IN_U32(ctr), limit = IN_U32(limit);
        size_t x = IN_U64(x);
        uint64_t want;
        mk_state(ctr, limit);
        tinyjambu_prng_set_reseed_limit((tinyjambu_prng_state_t *)&ps, x);
        want = x > 1048576u ? 1048576u : x;
        want = (want + 31) / 32;
        if (want < 1) want = 1;
        CHECK(ps.reseed_limit == want, "limit = max(1, ceil(min(x, 1 MiB) / 32)) blocks");
        CHECK(ps.reseed_limit >= 1 && ps.reseed_limit <= 32768, "invariant: 1 <= limit <= 32768");
        CHECK(ps.reseed_counter == ctr && nreq == 0, "set_reseed_limit leaves the counter alone and requests nothing");
        for (unsigned i = 0; i < 32; ++i) CHECK(ps.V[i] == IN_V[i] && ps.C[i] == IN_C[i], "set_reseed_limit leaves V and C alone");
    }
#elif VARIANT == 6
    {
        static tinyjambu_prng_state_t a, b;
        int ra, rb, calls_a;
        for (unsigned i = 0; i < 12; ++i) { a.s[i] = IN_U64_AT(raw, i); b.s[i] = IN_raw[i]; }
        IN_BYTES(data, data, CUSTOMLEN);
        ra = tinyjambu_prng_init(&a, data, CUSTOMLEN);
        calls_a = trng_calls;
        rb = tinyjambu_prng_init_user(&b, 0, &cookie, data, CUSTOMLEN);
        CHECK(ra == rb, "NULL callback: same status as plain init");
        CHECK(calls_a == 1 && trng_calls == 2, "NULL callback: the system source is consulted exactly as by plain init");
        for (unsigned i = 0; i < 12; ++i) CHECK(a.s[i] == b.s[i], "NULL callback: byte-identical state to plain init");
        CHECK((ra != 0) == ((IN_trng_ok & 1) != 0), "init reports the system source's status");
    }
#elif VARIANT == 7
    {
        /* two states that differ only in V, same new material: the new V's must be able to differ */
        static tinyjambu_prng_state_p_t q;
        int same = 1;
        mk_state(1, 32);
        q = ps;
        IN_FILL(q.V, V2, 32);
        IN_BYTES(data, data, LEN);
#if OP == 0
        tinyjambu_prng_feed((tinyjambu_prng_state_t *)&ps, data, LEN);
        tinyjambu_prng_feed((tinyjambu_prng_state_t *)&q, data, LEN);
#else
        tinyjambu_prng_reseed((tinyjambu_prng_state_t *)&ps);
        for (unsigned i = 0; i < 32; ++i) IN_ent[32 + i] = IN_ent[i];      /* same delivery to both */
        tinyjambu_prng_reseed((tinyjambu_prng_state_t *)&q);
#endif
        for (unsigned i = 0; i < 32; ++i) if (ps.V[i] != q.V[i]) same = 0;
        MUSTFAIL(same, "new state derives from the old state together with the new material, never from the new material alone");
    }
#elif VARIANT == 8
    {
        /* a SHORT delivery is still mixed in: same state, deliveries differing in the KDELIV delivered bytes;
         * the new V's must be able to differ (KDELIV >= 1) */
        static tinyjambu_prng_state_p_t q;
        int same = 1, r1, r2;
        mk_state(1, 32);
        q = ps;
#if OP == 1
        r1 = tinyjambu_prng_reseed((tinyjambu_prng_state_t *)&ps);
        r2 = tinyjambu_prng_reseed((tinyjambu_prng_state_t *)&q);      /* second request: slot 1 of IN_ent */
        for (unsigned i = 0; i < 32; ++i) if (ps.V[i] != q.V[i]) same = 0;
#else
        static tinyjambu_prng_state_t a, b;
        for (unsigned i = 0; i < 12; ++i) { a.s[i] = 0; b.s[i] = 0; }
        r1 = tinyjambu_prng_init_user(&a, entropy_cb, &cookie, 0, 0);
        r2 = tinyjambu_prng_init_user(&b, entropy_cb, &cookie, 0, 0);
        for (unsigned i = 0; i < 4; ++i) if (a.s[i] != b.s[i]) same = 0;
#endif
        CHECK((r1 != 0) == (KDELIV == 32) && (r2 != 0) == (KDELIV == 32), "status is truthful");
        MUSTFAIL(same, "bytes of a short delivery are still mixed into the state");
    }
#endif
VERIF_MAIN_END
