/* Cut 1 (DESIGN.md section 4): the three permutations as uninterpreted functions of
 * (four state words, KW pre-inverted key words, rounds).  Only s[0..3] is written.
 * Linked INSTEAD of src/backend/tinyjambu-N-c32.c in mode-level harnesses; the real
 * permutation code is decided separately by C05. */
#include "backend/tinyjambu-backend.h"
#include "perm_uf.h"

void tinyjambu_permutation_128(tinyjambu_128_state_t *state, unsigned rounds)
{
    u128 r = __CPROVER_uninterpreted_perm128(PACK4(state->s), PACK4(state->k), rounds);
    UNPACK4(state->s, r);
}
void tinyjambu_permutation_192(tinyjambu_192_state_t *state, unsigned rounds)
{
    u128 r = __CPROVER_uninterpreted_perm192(PACK4(state->s), PACK4(state->k),
                 (uint64_t)state->k[4] | ((uint64_t)state->k[5] << 32), rounds);
    UNPACK4(state->s, r);
}
void tinyjambu_permutation_256(tinyjambu_256_state_t *state, unsigned rounds)
{
    u128 r = __CPROVER_uninterpreted_perm256(PACK4(state->s), PACK4(state->k),
                 PACK4(state->k + 4), rounds);
    UNPACK4(state->s, r);
}
