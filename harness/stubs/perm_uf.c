/* Cut 1 (DESIGN.md section 4): the three permutations as uninterpreted functions of
 * (four state words, KW pre-inverted key words, rounds).  Only s[0..3] is written.
 * Linked INSTEAD of src/backend/tinyjambu-N-c32.c in mode-level harnesses; the real
 * permutation code is decided separately by C05. */
#include "backend/tinyjambu-backend.h"
#include "perm_uf.h"

void tinyjambu_permutation_128(tinyjambu_128_state_t *state, unsigned rounds)
{
    UF_APPLY(128, state->s, state->k, rounds);
}
void tinyjambu_permutation_192(tinyjambu_192_state_t *state, unsigned rounds)
{
    UF_APPLY(192, state->s, state->k, rounds);
}
void tinyjambu_permutation_256(tinyjambu_256_state_t *state, unsigned rounds)
{
    UF_APPLY(256, state->s, state->k, rounds);
}
