/* makes the observer symbol known inside the library goto binary so that goto-instrument --branch can call it */
void ct_obs(const char *id);
void ct_obs_anchor(void) { ct_obs("anchor"); }
