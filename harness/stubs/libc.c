/* Harness-side models of the libc functions the library imports.
 * Contract modelled: copy / fill exactly n bytes; n == 0 is a no-op whatever
 * the pointers are (so mem*(p, NULL, 0) is not flagged, see DESIGN.md stub table).
 * Every byte access goes through CBMC's pointer checks, so a call with n larger
 * than either object is a bounds failure. */
#include <stddef.h>
void *memcpy(void *dst, const void *src, size_t n)
{
    unsigned char *d = (unsigned char *)dst;
    const unsigned char *s = (const unsigned char *)src;
    for (size_t i = 0; i < n; ++i) d[i] = s[i];
    return dst;
}
void *memset(void *dst, int c, size_t n)
{
    unsigned char *d = (unsigned char *)dst;
    for (size_t i = 0; i < n; ++i) d[i] = (unsigned char)c;
    return dst;
}
#ifndef VERIF_BZERO_RECORD
void explicit_bzero(void *dst, size_t n)
{
    unsigned char *d = (unsigned char *)dst;
    for (size_t i = 0; i < n; ++i) d[i] = 0;
}
#endif
