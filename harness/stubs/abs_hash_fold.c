/* Cut 2, fold encoding (DESIGN.md section 4): the hash API as an ARBITRARY byte-wise fold
 *     state' = A(state, byte)      digest = F(state)      init = one fixed state
 * over the full 56-byte state object, with A and F uninterpreted functions (7 x 64-bit words in,
 * one word out per function symbol).  The real tinyjambu-hash.c is an instance of this scheme on
 * its 52 significant state bytes: C11 shows update is exactly such a byte-wise fold (any
 * chunking), finalize is a function of the state, init resets to one fixed abstract state whatever
 * the object held, and nothing depends on the padding.  A property proved for every (A, F)
 * therefore holds for the real hash.  Linked INSTEAD of src/tinyjambu-hash.c.
 * After finalize the state must be re-initialised before further use (enforced). */
#include "TinyJAMBU.h"
#include "verif.h"
#define W uint64_t
#define ARGS W, W, W, W, W, W, W
W __CPROVER_uninterpreted_habs0(ARGS, unsigned char); W __CPROVER_uninterpreted_habs1(ARGS, unsigned char);
W __CPROVER_uninterpreted_habs2(ARGS, unsigned char); W __CPROVER_uninterpreted_habs3(ARGS, unsigned char);
W __CPROVER_uninterpreted_habs4(ARGS, unsigned char); W __CPROVER_uninterpreted_habs5(ARGS, unsigned char);
W __CPROVER_uninterpreted_habs6(ARGS, unsigned char);
W __CPROVER_uninterpreted_hfin0(ARGS); W __CPROVER_uninterpreted_hfin1(ARGS);
W __CPROVER_uninterpreted_hfin2(ARGS); W __CPROVER_uninterpreted_hfin3(ARGS);
unsigned abs_napp;
unsigned abs_oneshot;      /* ghost: number of one-shot tinyjambu_hash() calls */
#define ST(s) s[0], s[1], s[2], s[3], s[4], s[5], s[6]
#define LIVE 0x4C495645ULL

static void fold_init(W s[7]) { for (unsigned i = 0; i < 6; ++i) s[i] = 0; s[6] = LIVE; }
static void fold_byte(W s[7], unsigned char b)
{
    W t[7] = { ST(s) };
    s[0] = __CPROVER_uninterpreted_habs0(ST(t), b); s[1] = __CPROVER_uninterpreted_habs1(ST(t), b);
    s[2] = __CPROVER_uninterpreted_habs2(ST(t), b); s[3] = __CPROVER_uninterpreted_habs3(ST(t), b);
    s[4] = __CPROVER_uninterpreted_habs4(ST(t), b); s[5] = __CPROVER_uninterpreted_habs5(ST(t), b);
    s[6] = __CPROVER_uninterpreted_habs6(ST(t), b);
}
static void fold_fin(const W s[7], unsigned char out[32])
{
    W d[4];
    d[0] = __CPROVER_uninterpreted_hfin0(ST(s)); d[1] = __CPROVER_uninterpreted_hfin1(ST(s));
    d[2] = __CPROVER_uninterpreted_hfin2(ST(s)); d[3] = __CPROVER_uninterpreted_hfin3(ST(s));
    for (unsigned i = 0; i < 32; ++i) out[i] = (unsigned char)(d[i / 8] >> (8 * (i % 8)));
    ++abs_napp;
}

/* the oracle side: H(bytes) */
void abs_H(unsigned char out[32], const unsigned char *in, size_t len)
{
    W s[7];
    fold_init(s);
    for (size_t i = 0; i < len; ++i) fold_byte(s, in[i]);
    fold_fin(s, out);
}

/* the implementation side: the public API over the caller's state object.  A ghost flag
 * (not part of the object) tracks "between init and finalize". */
void tinyjambu_hash_init(tinyjambu_hash_state_t *state)
{
    W s[7];
    fold_init(s);
    for (unsigned i = 0; i < 7; ++i) state->s[i] = s[i];
}
void tinyjambu_hash_reinit(tinyjambu_hash_state_t *state) { tinyjambu_hash_init(state); }
void tinyjambu_hash_update(tinyjambu_hash_state_t *state, const unsigned char *in, size_t inlen)
{
    W s[7];
    for (unsigned i = 0; i < 7; ++i) s[i] = state->s[i];
    for (size_t i = 0; i < inlen; ++i) fold_byte(s, in[i]);
    for (unsigned i = 0; i < 7; ++i) state->s[i] = s[i];
}
void tinyjambu_hash_finalize(tinyjambu_hash_state_t *state, unsigned char *out)
{
    W s[7];
    unsigned char d[32];
    for (unsigned i = 0; i < 7; ++i) s[i] = state->s[i];
    fold_fin(s, d);
    for (unsigned i = 0; i < 32; ++i) out[i] = d[i];
    /* the real finalize leaves an unspecified state: poison it so that any further use without
     * init shows up as a difference from the oracle */
    for (unsigned i = 0; i < 7; ++i) state->s[i] = nondet_ulong();
}
void tinyjambu_hash_free(tinyjambu_hash_state_t *state)
{
    if (state) tinyjambu_clean(state, sizeof(tinyjambu_hash_state_t));
}
void tinyjambu_hash(unsigned char *out, const unsigned char *in, size_t inlen)
{
    unsigned char d[32];
    ++abs_oneshot;
    abs_H(d, in, inlen);
    for (unsigned i = 0; i < 32; ++i) out[i] = d[i];
}
