#ifndef PERM_UF_H
#define PERM_UF_H
#include <stdint.h>
/* The uninterpreted permutation functions of Cut 1, shared by the implementation-side
 * stand-in (perm_uf.c) and the specification models (models/tj_spec.c).
 * One function per output word, arguments: 4 state words, KW pre-inverted key words, rounds. */
#ifdef __CPROVER__
#define UF_DECL(n) \
uint32_t __CPROVER_uninterpreted_perm128_##n(uint32_t, uint32_t, uint32_t, uint32_t, uint32_t, uint32_t, uint32_t, uint32_t, unsigned); \
uint32_t __CPROVER_uninterpreted_perm192_##n(uint32_t, uint32_t, uint32_t, uint32_t, uint32_t, uint32_t, uint32_t, uint32_t, uint32_t, uint32_t, unsigned); \
uint32_t __CPROVER_uninterpreted_perm256_##n(uint32_t, uint32_t, uint32_t, uint32_t, uint32_t, uint32_t, uint32_t, uint32_t, uint32_t, uint32_t, uint32_t, uint32_t, unsigned);
UF_DECL(0) UF_DECL(1) UF_DECL(2) UF_DECL(3)
#define UF128(n, s, k, r) __CPROVER_uninterpreted_perm128_##n(s[0], s[1], s[2], s[3], k[0], k[1], k[2], k[3], r)
#define UF192(n, s, k, r) __CPROVER_uninterpreted_perm192_##n(s[0], s[1], s[2], s[3], k[0], k[1], k[2], k[3], k[4], k[5], r)
#define UF256(n, s, k, r) __CPROVER_uninterpreted_perm256_##n(s[0], s[1], s[2], s[3], k[0], k[1], k[2], k[3], k[4], k[5], k[6], k[7], r)
/* apply: s (uint32_t[4]) <- UF(s, k, r) */
#define UF_APPLY(KS, s, k, r) do { \
        uint32_t _a[4] = { (s)[0], (s)[1], (s)[2], (s)[3] }; \
        (s)[0] = UF##KS(0, _a, k, r); (s)[1] = UF##KS(1, _a, k, r); \
        (s)[2] = UF##KS(2, _a, k, r); (s)[3] = UF##KS(3, _a, k, r); } while (0)
#endif
#endif
