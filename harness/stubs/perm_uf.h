#ifndef PERM_UF_H
#define PERM_UF_H
#include <stdint.h>
/* The uninterpreted permutation functions of Cut 1, shared by the implementation-side
 * stand-in (perm_uf.c) and the specification models (models/tj_spec.c). */
typedef unsigned __int128 u128;
#ifdef __CPROVER__
u128 __CPROVER_uninterpreted_perm128(u128 s, u128 k, unsigned rounds);
u128 __CPROVER_uninterpreted_perm192(u128 s, u128 k0, uint64_t k1, unsigned rounds);
u128 __CPROVER_uninterpreted_perm256(u128 s, u128 k0, u128 k1, unsigned rounds);
#endif
#define PACK4(a) ((u128)(a)[0] | ((u128)(a)[1] << 32) | ((u128)(a)[2] << 64) | ((u128)(a)[3] << 96))
#define UNPACK4(a, v) do { (a)[0] = (uint32_t)(v); (a)[1] = (uint32_t)((v) >> 32); \
                           (a)[2] = (uint32_t)((v) >> 64); (a)[3] = (uint32_t)((v) >> 96); } while (0)
#endif
