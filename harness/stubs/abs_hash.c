/* Cut 2 (DESIGN.md section 4): the hash API as an ARBITRARY function H of the absorbed
 * bytes.  Linked INSTEAD of src/tinyjambu-hash.c in harnesses for the layers above the
 * hash.  H is modelled by Ackermann's reduction: every application gets 32 fresh symbolic
 * bytes, constrained to agree with every earlier application on an equal input.
 * Contract modelled (= C10 + C11 + C20, which are decided on the real tinyjambu-hash.c):
 *   init/reinit on arbitrary prior contents start an empty message;
 *   update appends (update(p, 0) and update(NULL, 0) are no-ops);
 *   finalize returns H(message); the state must be re-initialised before further use
 *   (using it otherwise fails the harness: the library would rely on unspecified behaviour);
 *   free zeroes the 56 bytes through tinyjambu_clean; free(NULL) is a no-op;
 *   tinyjambu_hash(out, in, n) = H(in[0..n)). */
#include "TinyJAMBU.h"
#include "verif.h"
#ifndef ABS_MAXAPP
#define ABS_MAXAPP 64
#endif
#ifndef ABS_MAXLEN
#define ABS_MAXLEN 320
#endif
#ifndef ABS_MAXSLOT
#define ABS_MAXSLOT 48
#endif
#define ABS_MAGIC 0x48415348000000ULL

static unsigned char tab_in[ABS_MAXAPP][ABS_MAXLEN];
static size_t tab_len[ABS_MAXAPP];
static unsigned char tab_out[ABS_MAXAPP][32];
unsigned abs_napp;
unsigned abs_oneshot;      /* ghost: number of one-shot tinyjambu_hash() calls */

void abs_H(unsigned char out[32], const unsigned char *in, size_t len)
{
    unsigned id = abs_napp++;
    CHECK(id < ABS_MAXAPP, "abstract hash: application table large enough (harness bound)");
    CHECK(len <= ABS_MAXLEN, "abstract hash: message fits the model buffer (harness bound)");
    tab_len[id] = len;
    for (size_t i = 0; i < len; ++i) tab_in[id][i] = in[i];
    for (unsigned i = 0; i < 32; ++i) tab_out[id][i] = nondet_uchar();
    for (unsigned j = 0; j < id; ++j) {
        if (tab_len[j] == len) {
            int same = 1;
            for (size_t i = 0; i < len; ++i) if (tab_in[j][i] != tab_in[id][i]) same = 0;
            if (same) for (unsigned i = 0; i < 32; ++i) ASSUME(tab_out[j][i] == tab_out[id][i]);
        }
    }
    for (unsigned i = 0; i < 32; ++i) out[i] = tab_out[id][i];
}

static unsigned char slot_buf[ABS_MAXSLOT][ABS_MAXLEN];
static size_t slot_len[ABS_MAXSLOT];
static int slot_live[ABS_MAXSLOT];
static int nslots;

void tinyjambu_hash_init(tinyjambu_hash_state_t *state)
{
    int slot = nslots++;
    CHECK(slot < ABS_MAXSLOT, "abstract hash: slot table large enough (harness bound)");
    slot_len[slot] = 0;
    slot_live[slot] = 1;
    state->s[0] = ABS_MAGIC | (unsigned long long)slot;
    for (unsigned i = 1; i < sizeof(state->s) / sizeof(state->s[0]); ++i) state->s[i] = 0;
}
void tinyjambu_hash_reinit(tinyjambu_hash_state_t *state) { tinyjambu_hash_init(state); }

static int slot_of(const tinyjambu_hash_state_t *state)
{
    unsigned long long v = state->s[0];
    int slot = (int)(v & 0xFF);
    CHECK((v & ~0xFFULL) == ABS_MAGIC && slot < nslots && slot_live[slot],
          "hash state used only between init and finalize");
    return slot;
}
void tinyjambu_hash_update(tinyjambu_hash_state_t *state, const unsigned char *in, size_t inlen)
{
    int slot = slot_of(state);
    CHECK(slot_len[slot] + inlen <= ABS_MAXLEN, "abstract hash: message fits the model buffer (harness bound)");
    for (size_t i = 0; i < inlen; ++i) slot_buf[slot][slot_len[slot] + i] = in[i];
    slot_len[slot] += inlen;
}
void tinyjambu_hash_finalize(tinyjambu_hash_state_t *state, unsigned char *out)
{
    int slot = slot_of(state);
    unsigned char d[32];
    abs_H(d, slot_buf[slot], slot_len[slot]);
    for (unsigned i = 0; i < 32; ++i) out[i] = d[i];
    slot_live[slot] = 0;
}
void tinyjambu_hash_free(tinyjambu_hash_state_t *state)
{
    if (state) tinyjambu_clean(state, sizeof(tinyjambu_hash_state_t));
}
void tinyjambu_hash(unsigned char *out, const unsigned char *in, size_t inlen)
{
    unsigned char d[32];
    ++abs_oneshot;
    abs_H(d, in, inlen);
    for (unsigned i = 0; i < 32; ++i) out[i] = d[i];
}
