/* C20: state erasure.  -DVARIANT:
 *  1 -DWHICH=hash|hmac|hkdf|prng: X_free() on a state object holding arbitrary bytes zeroes every byte
 *  2 tinyjambu_clean(buf + OFF, N): exactly [OFF, OFF+N) is zeroed, guard bytes and the rest unchanged
 *    (configuration: volatile-loop fallback = real code; explicit_bzero / memset_s = contract stubs,
 *    what is decided is that they are called with the right pointer and size)
 *  3 hash_free(NULL) and hmac_free(NULL) are no-ops */
#include "verif.h"
#include "TinyJAMBU.h"
#ifndef N
#define N 0
#endif
#ifndef OFF
#define OFF 0
#endif
#define CAT3_(a,b,c) a##b##c
#define CAT3(a,b,c) CAT3_(a,b,c)
uint64_t IN_raw[12]; IN_DECL(buf, N + OFF + 16);
#ifdef STUB_MEMSET_S
int memset_s(void *s, size_t smax, int c, size_t n)
{
    unsigned char *d = (unsigned char *)s;
    CHECK(n <= smax, "memset_s: n <= smax");
    for (size_t i = 0; i < n; ++i) d[i] = (unsigned char)c;
    return 0;
}
#endif
VERIF_MAIN_BEGIN
#if VARIANT == 1
    CAT3(tinyjambu_, WHICH, _state_t) st;
    for (unsigned i = 0; i < sizeof(st) / 8; ++i) ((uint64_t *)&st)[i] = IN_U64_AT(raw, i);   /* arbitrary history */
    CAT3(tinyjambu_, WHICH, _free)(&st);
    for (unsigned i = 0; i < sizeof(st) / 8; ++i) CHECK(((uint64_t *)&st)[i] == 0, "every byte of the state object is zero after free");
    CHECK(sizeof(st) % 8 == 0, "state size is a multiple of 8 (harness assumption)");
#elif VARIANT == 2
    unsigned char *b;
    IN_BYTES(b, buf, N + OFF + 16);
    tinyjambu_clean(b + 8 + OFF, N);
    for (size_t i = 0; i < N + OFF + 16; ++i) {
        if (i >= 8 + OFF && i < 8 + OFF + N) CHECK(b[i] == 0, "every requested byte is zero");
        else CHECK(b[i] == IN_buf[i], "no byte outside the requested range is touched");
    }
#elif VARIANT == 3
    tinyjambu_hash_free(0);
    tinyjambu_hmac_free(0);
#endif
VERIF_MAIN_END
