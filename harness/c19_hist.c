/* C19 fact 3: history independence with REUSED buffers.  o1 = A(x1) with x1 stored at address P; an unrelated call
 * B(y) on disjoint objects; the SAME buffer P is overwritten with x2; o2 = A(x2 at P).  o2 must equal the
 * specification model of A on x2: anything the library remembers across calls (a cache keyed on a pointer or a
 * length, a scratch buffer, a lazily initialised table) shows up as a difference, and the counterexample replays
 * natively.  Family 0: AEAD / SIV / hash on the real code (permutation = UF); family 1: HMAC / PBKDF2 (long keys)
 * with HMAC / PRNG traffic in between, over the abstract hash.  -DFAMILY=0|1 -DHA -DHB */
#include "verif.h"
#include "TinyJAMBU.h"
#include "tj_spec.h"
#include "kdf_spec.h"
IN_DECL(x, 128); IN_DECL(x2, 128); IN_DECL(y, 128);

#if FAMILY == 0
static void run_A(unsigned char *out, const unsigned char *x)
{
    size_t n = 0;
#if HA == 0
    tinyjambu_128_aead_encrypt(out, &n, x + 28, 5, x + 33, 3, x + 16, x);
#elif HA == 1
    tinyjambu_256_siv_encrypt(out, &n, x + 44, 6, x + 50, 2, x + 32, x);
#else
    { tinyjambu_hash_state_t st; for (unsigned i = 0; i < 7; ++i) st.s[i] = 0;
      tinyjambu_hash_init(&st); tinyjambu_hash_update(&st, x, 21); tinyjambu_hash_finalize(&st, out); }
#endif
}
static void run_B(const unsigned char *y)
{
    unsigned char *o = verif_alloc(80);
    size_t n = 0;
#if HB == 0
    tinyjambu_192_aead_encrypt(o, &n, y + 36, 7, y + 43, 1, y + 24, y);
#elif HB == 1
    (void)tinyjambu_128_siv_decrypt(o, &n, y + 28, 13, y + 41, 2, y + 16, y);
#elif HB == 2
    { tinyjambu_hash_state_t st; for (unsigned i = 0; i < 7; ++i) st.s[i] = 0;
      tinyjambu_hash_init(&st); tinyjambu_hash_update(&st, y, 19); tinyjambu_hash_finalize(&st, o); tinyjambu_hash_free(&st); }
#elif HB == 3
    tinyjambu_clean(o, 80);
#else
    (void)tinyjambu_256_aead_decrypt(o, &n, y + 44, 12, y + 56, 0, y + 32, y);
#endif
}
#else
static size_t cb(void *ud, unsigned char *buf, size_t size) { (void)ud; for (size_t i = 0; i < size; ++i) buf[i] = IN_y[i]; return size; }
static void run_A(unsigned char *out, const unsigned char *x)
{
#if HA == 0
    tinyjambu_hmac(out, x, 70, x + 70, 11);              /* key longer than the HMAC block */
#else
    tinyjambu_pbkdf2(out, 32, x, 66, x + 66, 3, 2);          /* password longer than the HMAC block */
#endif
}
static void run_B(const unsigned char *y)
{
    unsigned char *o = verif_alloc(80);
#if HB == 0
    tinyjambu_hmac(o, y, 5, y + 5, 7);
#elif HB == 1
    { tinyjambu_hmac_state_t st; tinyjambu_hmac_init(&st, y, 70); tinyjambu_hmac_update(&st, y + 3, 9); tinyjambu_hmac_finalize(&st, y, 70, o); tinyjambu_hmac_free(&st); }
#else
    { static tinyjambu_prng_state_t st; (void)tinyjambu_prng_init_user(&st, cb, 0, y, 3); tinyjambu_prng_generate(&st, o, 40); tinyjambu_prng_feed(&st, y, 2); tinyjambu_prng_free(&st); }
#endif
}
#endif

static void model_A(unsigned char *out, const unsigned char *x)
{
#if FAMILY == 0
#if HA == 0
    spec_aead_encrypt(128, out, out + 5, x + 28, 5, x + 33, 3, x + 16, x);
#elif HA == 1
    spec_siv_mac(256, out + 6, x + 44, 6, x + 50, 2, x + 32, x);
    spec_siv_crypt(256, out, x + 44, 6, x + 32, out + 6, x);
#else
    spec_hash(out, x, 21);
#endif
#else
#if HA == 0
    spec_hmac(out, x, 70, x + 70, 11);
#else
    spec_pbkdf2(out, 32, x, 66, x + 66, 3, 2);
#endif
#endif
}

VERIF_MAIN_BEGIN
    unsigned char *x, *y, *o1 = verif_alloc(48), *o2 = verif_alloc(48), om[48];
    IN_BYTES(x, x, 128); IN_BYTES(y, y, 128);
    for (unsigned i = 0; i < 48; ++i) { o1[i] = 0; o2[i] = 0; om[i] = 0; }
    run_A(o1, x);
    run_B(y);
    IN_FILL(x, x2, 128);                      /* same address, new contents */
    run_A(o2, x);
    model_A(om, IN_x2);
    for (unsigned i = 0; i < 48; ++i) CHECK(o2[i] == om[i], "a call's result depends only on its own inputs, not on earlier calls or reused buffers");
    for (unsigned i = 0; i < 128; ++i) CHECK(x[i] == IN_x2[i] && y[i] == IN_y[i], "inputs unmodified");
VERIF_MAIN_END
