/* C19 fact 3: history independence.  out1 = A(x); an unrelated call B(y) on disjoint objects; out2 = A(x);
 * out1 == out2.  Run with --nondet-static, so any static-lifetime object that is read before being
 * written would show up as a difference.  -DFAMILY=0|1 -DA -DB */
#include "verif.h"
#include "TinyJAMBU.h"
IN_DECL(x, 64); IN_DECL(y, 64);

#if FAMILY == 0
static void run_A(unsigned char *out, const unsigned char *x)
{
    size_t n = 0;
#if A == 0
    tinyjambu_128_aead_encrypt(out, &n, x + 28, 5, x + 33, 3, x + 16, x);
#elif A == 1
    tinyjambu_256_siv_encrypt(out, &n, x + 44, 6, x + 50, 2, x + 32, x);
#else
    { tinyjambu_hash_state_t st; for (unsigned i = 0; i < 7; ++i) st.s[i] = 0;
      tinyjambu_hash_init(&st); tinyjambu_hash_update(&st, x, 21); tinyjambu_hash_finalize(&st, out); }
#endif
}
static void run_B(const unsigned char *y)
{
    unsigned char *o = verif_alloc(80);
    size_t n = 0;
#if B == 0
    tinyjambu_192_aead_encrypt(o, &n, y + 36, 7, y + 43, 1, y + 24, y);
#elif B == 1
    (void)tinyjambu_128_siv_decrypt(o, &n, y + 28, 13, y + 41, 2, y + 16, y);
#elif B == 2
    { tinyjambu_hash_state_t st; for (unsigned i = 0; i < 7; ++i) st.s[i] = 0;
      tinyjambu_hash_init(&st); tinyjambu_hash_update(&st, y, 19); tinyjambu_hash_finalize(&st, o); tinyjambu_hash_free(&st); }
#elif B == 3
    tinyjambu_clean(o, 80);
#else
    (void)tinyjambu_256_aead_decrypt(o, &n, y + 44, 12, y + 56, 0, y + 32, y);
#endif
}
#else
static size_t cb(void *ud, unsigned char *buf, size_t size) { (void)ud; for (size_t i = 0; i < size; ++i) buf[i] = IN_y[i]; return size; }
static void run_A(unsigned char *out, const unsigned char *x)
{
#if A == 0
    tinyjambu_hmac(out, x, 9, x + 9, 11);
#else
    tinyjambu_pbkdf2(out, 32, x, 4, x + 4, 3, 2);
#endif
}
static void run_B(const unsigned char *y)
{
    unsigned char *o = verif_alloc(80);
#if B == 0
    tinyjambu_hmac(o, y, 5, y + 5, 7);
#elif B == 1
    { tinyjambu_hmac_state_t st; tinyjambu_hmac_init(&st, y, 70); tinyjambu_hmac_update(&st, y + 3, 9); tinyjambu_hmac_finalize(&st, y, 70, o); tinyjambu_hmac_free(&st); }
#else
    { static tinyjambu_prng_state_t st; (void)tinyjambu_prng_init_user(&st, cb, 0, y, 3); tinyjambu_prng_generate(&st, o, 40); tinyjambu_prng_feed(&st, y, 2); tinyjambu_prng_free(&st); }
#endif
}
#endif

VERIF_MAIN_BEGIN
    unsigned char *x, *y, *o1 = verif_alloc(48), *o2 = verif_alloc(48);
    IN_BYTES(x, x, 64); IN_BYTES(y, y, 64);
    for (unsigned i = 0; i < 48; ++i) { o1[i] = 0; o2[i] = 0; }
    run_A(o1, x);
    run_B(y);
    run_A(o2, x);
    for (unsigned i = 0; i < 48; ++i) CHECK(o1[i] == o2[i], "a call's result never depends on earlier unrelated calls");
    for (unsigned i = 0; i < 64; ++i) CHECK(x[i] == IN_x[i] && y[i] == IN_y[i], "inputs unmodified");
VERIF_MAIN_END
