/* C02 / C09: encryption output is bit-exact the specification model.
 * -DKS -DMODE=aead|siv -DADLEN -DMLEN ; MODE_SIV set by the driver for siv */
#include "verif.h"
#include "TinyJAMBU.h"
#include "tj_spec.h"
#define CAT5_(a,b,c,d,e) a##b##c##d##e
#define CAT5(a,b,c,d,e) CAT5_(a,b,c,d,e)
#define ENC CAT5(tinyjambu_, KS, _, MODE, _encrypt)
#define KEYLEN (KS/8)
IN_DECL(key, KEYLEN); IN_DECL(npub, 12); IN_DECL(ad, ADLEN); IN_DECL(m, MLEN);

VERIF_MAIN_BEGIN
    unsigned char *key, *npub, *ad, *m, *c;
    unsigned char cm[MLEN + 8];
    size_t clen = 0;
    IN_BYTES(key, key, KEYLEN); IN_BYTES(npub, npub, 12); IN_BYTES(ad, ad, ADLEN); IN_BYTES(m, m, MLEN);
    c = verif_alloc(MLEN + 8);
    ENC(c, &clen, m, MLEN, ad, ADLEN, npub, key);
#ifdef MODE_SIV
    spec_siv_mac(KS, cm + MLEN, IN_m, MLEN, IN_ad, ADLEN, IN_npub, IN_key);
    spec_siv_crypt(KS, cm, IN_m, MLEN, IN_npub, cm + MLEN, IN_key);
#else
    spec_aead_encrypt(KS, cm, cm + MLEN, IN_m, MLEN, IN_ad, ADLEN, IN_npub, IN_key);
#endif
    CHECK(clen == (size_t)MLEN + 8, "clen == mlen + 8");
    for (size_t i = 0; i < MLEN; ++i) CHECK(c[i] == cm[i], "ciphertext body equals the specification");
    for (size_t i = 0; i < 8; ++i) CHECK(c[MLEN + i] == cm[MLEN + i], "tag equals the specification");
VERIF_MAIN_END
