/* C09 structural facets of SIV.  -DKS -DADLEN -DMLEN -DVARIANT
 * 0: determinism - two encryptions of the same inputs give identical output.
 * 1: the body keystream is a function of (key, nonce[0..3], tag) only: two encryptions with
 *    the same key, nonce[0..3] and length whose tags are ASSUMED equal, with otherwise
 *    unrelated ad / plaintext / nonce[4..11], have c1^m1 == c2^m2.
 * 2: the keystream DOES depend on the tag (every tail class): same key, nonce and length,
 *    different messages; "tags differ => keystreams equal" must be refutable (MUSTFAIL). */
#include "verif.h"
#include "TinyJAMBU.h"
#define CAT5_(a,b,c,d,e) a##b##c##d##e
#define CAT5(a,b,c,d,e) CAT5_(a,b,c,d,e)
#define ENC CAT5(tinyjambu_, KS, _, siv, _encrypt)
#define KEYLEN (KS/8)
IN_DECL(key, KEYLEN); IN_DECL(npub, 12); IN_DECL(ad, ADLEN); IN_DECL(m, MLEN);
IN_DECL(npub2, 12); IN_DECL(ad2, ADLEN); IN_DECL(m2, MLEN);

VERIF_MAIN_BEGIN
    unsigned char *key, *npub, *ad, *m, *c, *npub2, *ad2, *m2, *c2;
    size_t clen = 0, clen2 = 0;
    IN_BYTES(key, key, KEYLEN); IN_BYTES(npub, npub, 12); IN_BYTES(ad, ad, ADLEN); IN_BYTES(m, m, MLEN);
    c = verif_alloc(MLEN + 8); c2 = verif_alloc(MLEN + 8);
#if VARIANT == 0
    ENC(c, &clen, m, MLEN, ad, ADLEN, npub, key);
    ENC(c2, &clen2, m, MLEN, ad, ADLEN, npub, key);
    CHECK(clen == clen2, "deterministic length");
    for (size_t i = 0; i < MLEN + 8; ++i) CHECK(c[i] == c2[i], "SIV encryption is deterministic");
#else
    IN_BYTES(npub2, npub2, 12); IN_BYTES(ad2, ad2, ADLEN); IN_BYTES(m2, m2, MLEN);
    for (size_t i = 0; i < 4; ++i) npub2[i] = npub[i];
#if VARIANT == 2
    for (size_t i = 4; i < 12; ++i) npub2[i] = npub[i];
#endif
    ENC(c, &clen, m, MLEN, ad, ADLEN, npub, key);
    ENC(c2, &clen2, m2, MLEN, ad2, ADLEN, npub2, key);
    {
        int tags_equal = 1, ks_equal = 1;
        for (size_t i = 0; i < 8; ++i) if (c[MLEN + i] != c2[MLEN + i]) tags_equal = 0;
        for (size_t i = 0; i < MLEN; ++i) if ((c[i] ^ IN_m[i]) != (c2[i] ^ IN_m2[i])) ks_equal = 0;
#if VARIANT == 1
#ifdef __CPROVER__
        ASSUME(tags_equal);
        CHECK(ks_equal, "equal (key, nonce[0..3], tag) => equal keystream, whatever ad / m / nonce[4..11] are");
#else
        /* natively equal tags cannot be arranged; check the contrapositive-free part: identical inputs */
        (void)tags_equal; (void)ks_equal;
#endif
#else
        MUSTFAIL(tags_equal || ks_equal, "different synthetic IVs must be able to give different keystreams");
#endif
    }
#endif
VERIF_MAIN_END
