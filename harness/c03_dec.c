/* C03(b) / C04 / C08: decryption of an ARBITRARY packet accepts iff the trailing 8 bytes are
 * exactly the tag the specification derives; on rejection the plaintext region is all
 * zero, on acceptance it is the specification's plaintext.
 * -DKS -DMODE -DADLEN -DMLEN(body length) -DINPLACE=0|1 [-DMODE_SIV]
 * AEAD: body c arbitrary, t = SpecTag(key,npub,ad,c) XOR delta, delta arbitrary.
 * SIV : (m0, dc, dt) arbitrary; c = SivEnc(m0) body XOR dc, t = SivTag(m0) XOR dt - every
 *       (c, t) pair is reachable, and (dc, dt) = 0 is the honest packet. */
#include "verif.h"
#include "TinyJAMBU.h"
#include "tj_spec.h"
#define CAT5_(a,b,c,d,e) a##b##c##d##e
#define CAT5(a,b,c,d,e) CAT5_(a,b,c,d,e)
#define DEC CAT5(tinyjambu_, KS, _, MODE, _decrypt)
#define KEYLEN (KS/8)
IN_DECL(key, KEYLEN); IN_DECL(npub, 12); IN_DECL(ad, ADLEN); IN_DECL(body, MLEN); IN_DECL(delta, 8);
IN_DECL(dc, MLEN); IN_DECL(mprior, MLEN); IN_U64_DECL(mlen0);

VERIF_MAIN_BEGIN
    unsigned char *key, *npub, *ad, *pkt, *m;
    unsigned char mexp[MLEN + 1], texp[8], tin[8];
    unsigned char body[MLEN + 1];
    size_t mlen;
    int r, expect_ok = 1;
    IN_BYTES(key, key, KEYLEN); IN_BYTES(npub, npub, 12); IN_BYTES(ad, ad, ADLEN);
    IN_FILL(body, body, MLEN);
    IN_FILL(tin, delta, 8);
#ifdef MODE_SIV
    {   /* body holds m0 */
        unsigned char t0[8], c0[MLEN + 1], d[MLEN + 1];
        IN_FILL(d, dc, MLEN);
        spec_siv_mac(KS, t0, body, MLEN, IN_ad, ADLEN, IN_npub, IN_key);
        spec_siv_crypt(KS, c0, body, MLEN, IN_npub, t0, IN_key);
        for (size_t i = 0; i < MLEN; ++i) body[i] = c0[i] ^ d[i];
        for (size_t i = 0; i < 8; ++i) tin[i] ^= t0[i];
        /* the specification's verdict on (body, tin) */
        spec_siv_crypt(KS, mexp, body, MLEN, IN_npub, tin, IN_key);
        spec_siv_mac(KS, texp, mexp, MLEN, IN_ad, ADLEN, IN_npub, IN_key);
        for (size_t i = 0; i < 8; ++i) if (texp[i] != tin[i]) expect_ok = 0;
    }
#else
    spec_aead_decrypt(KS, mexp, texp, body, MLEN, IN_ad, ADLEN, IN_npub, IN_key);
    for (size_t i = 0; i < 8; ++i) { if (tin[i]) expect_ok = 0; tin[i] ^= texp[i]; }
#endif
    pkt = verif_alloc(MLEN + 8);
    for (size_t i = 0; i < MLEN; ++i) pkt[i] = body[i];
    for (size_t i = 0; i < 8; ++i) pkt[MLEN + i] = tin[i];
#if INPLACE
    m = pkt;
#else
    IN_BYTES(m, mprior, MLEN);                 /* arbitrary prior contents of the output region */
#endif
    mlen = IN_U64(mlen0);
    r = DEC(m, &mlen, pkt, MLEN + 8, ad, ADLEN, npub, key);
    CHECK(r == 0 || r == -1, "result is 0 or -1");
    CHECK((r == 0) == (expect_ok != 0), "accepts iff the tag is exactly the specification's tag");
    CHECK(mlen == MLEN, "*mlen == clen - 8");
    for (size_t i = 0; i < MLEN; ++i) {
        if (r == 0) CHECK(m[i] == mexp[i], "accepted: output is the specification's plaintext");
        else CHECK(m[i] == 0, "rejected: every byte of the plaintext region is zero");
    }
#if !INPLACE
    for (size_t i = 0; i < MLEN + 8; ++i) CHECK(pkt[i] == (i < MLEN ? body[i] : tin[i - MLEN]), "packet unmodified");
#else
    for (size_t i = 0; i < 8; ++i) CHECK(pkt[MLEN + i] == tin[i], "tag bytes of an in-place packet unmodified");
#endif
VERIF_MAIN_END
