/* C12: TinyJAMBU-HMAC == RFC 2104 over the (abstract) hash.
 * -DKEYLEN -DMSGLEN -DVARIANT: 0 one-shot; 1 init/update(C1)/update(rest)/finalize;
 *  2 init, update(PRE arbitrary bytes), reinit, update(msg), finalize == HMAC(key, msg)
 *  3 / 4 one-shot / streamed with the output written over the key buffer (out == key) */
#include "verif.h"
#include "TinyJAMBU.h"
#include "kdf_spec.h"
#ifndef C1
#define C1 0
#endif
#ifndef PRE
#define PRE 0
#endif
IN_DECL(key, KEYLEN); IN_DECL(msg, MSGLEN); IN_DECL(pre, PRE);

VERIF_MAIN_BEGIN
    unsigned char *key, *msg, *out, *pre;
    unsigned char exp[32];
    IN_BYTES(key, key, KEYLEN); IN_BYTES(msg, msg, MSGLEN);
    out = verif_alloc(32);
#if VARIANT == 3    /* the MAC is written over the key buffer itself (in-place key ratchet): out == key, KEYLEN >= 32 */
    out = key;
    tinyjambu_hmac(out, key, KEYLEN, msg, MSGLEN);
#elif VARIANT == 4  /* streamed, finalize writes the MAC over the key buffer */
    {
        tinyjambu_hmac_state_t st;
        out = key;
        tinyjambu_hmac_init(&st, key, KEYLEN);
        tinyjambu_hmac_update(&st, msg, MSGLEN);
        tinyjambu_hmac_finalize(&st, key, KEYLEN, out);
    }
#elif VARIANT == 0
    tinyjambu_hmac(out, key, KEYLEN, msg, MSGLEN);
#else
    {
        tinyjambu_hmac_state_t st;
        tinyjambu_hmac_init(&st, key, KEYLEN);
#if VARIANT == 2
        IN_BYTES(pre, pre, PRE);
        tinyjambu_hmac_update(&st, pre, PRE);
        tinyjambu_hmac_reinit(&st, key, KEYLEN);
#endif
        tinyjambu_hmac_update(&st, C1 ? msg : 0, C1);
        tinyjambu_hmac_update(&st, MSGLEN ? msg + C1 : 0, MSGLEN - C1);
        tinyjambu_hmac_finalize(&st, key, KEYLEN, out);
        tinyjambu_hmac_free(&st);
        for (unsigned i = 0; i < sizeof(st.hash.s) / sizeof(st.hash.s[0]); ++i)
            CHECK(st.hash.s[i] == 0, "hmac_free zeroes the state");
    }
#endif
    spec_hmac(exp, IN_key, KEYLEN, IN_msg, MSGLEN);
    for (unsigned i = 0; i < 32; ++i) CHECK(out[i] == exp[i], "HMAC equals RFC 2104 over the same hash");
#if VARIANT != 3 && VARIANT != 4
    for (size_t i = 0; i < KEYLEN; ++i) CHECK(key[i] == IN_key[i], "key unmodified");
#endif
    for (size_t i = 0; i < MSGLEN; ++i) CHECK(msg[i] == IN_msg[i], "message unmodified");
VERIF_MAIN_END
