/* C18: the system entropy source under OS faults.  The real tinyjambu-trng-dev-random.c is
 * #included after the OS entry points have been renamed to harness stubs driven by a SYMBOLIC
 * fault script ev[0..KMAX): 0 success, 1 EINTR, 2 EAGAIN, 3 permanent error (any other errno),
 * (device variant only) 4 short read.  The build variant (getrandom / getentropy / raw syscall /
 * /dev/urandom) is selected by the generated config.h and -DVARIANT_DEV.
 * -DKMAX=n  -DCHAIN: tinyjambu_prng_init() on top of it (real tinyjambu-prng.c, abstract hash) */
#include "verif.h"
#include <sys/types.h>
#include <sys/stat.h>
#include <sys/time.h>
#include <unistd.h>
#include <fcntl.h>
#include <errno.h>
#include <string.h>
#include <sys/syscall.h>
#include <sys/random.h>
#ifdef VARIANT_DEV
#undef SYS_getrandom
#endif
#ifndef KMAX
#define KMAX 8
#endif
IN_DECL(ev, KMAX); IN_DECL(os, 32 * KMAX); IN_DECL(prior, 32); IN_U32_DECL(perm_errno); IN_U32_DECL(openfail); IN_DECL(custom, 4);
uint64_t IN_raw[12];
static int ncalls, nopen, nclose, fd_live, over;

static long os_call(void *buf, size_t size, long ok_ret)
{
    int i = ncalls++;
    unsigned e;
    if (i >= KMAX) { over = 1; errno = EIO; return -1; }     /* beyond the script: bounded by the assumption below */
    e = IN_ev[i];
    if (e == 0) {
        for (size_t j = 0; j < size && j < 32; ++j) ((unsigned char *)buf)[j] = IN_os[32 * i + j];
        return ok_ret;
    }
    if (e == 1) { errno = EINTR; return -1; }
    if (e == 2) { errno = EAGAIN; return -1; }
    errno = (int)IN_perm_errno;
    return -1;
}
static ssize_t verif_getrandom(void *buf, size_t size, unsigned flags) { CHECK(flags == 0, "getrandom flags 0"); return os_call(buf, size, (long)size); }
static int verif_getentropy(void *buf, size_t size) { return (int)os_call(buf, size, 0); }
#ifdef SYS_getrandom
static long verif_syscall(long nr, void *buf, size_t size, int flags) { CHECK(nr == SYS_getrandom && flags == 0, "raw getrandom syscall"); return os_call(buf, size, (long)size); }
#endif
static int verif_open(const char *path, int flags) { (void)path; (void)flags; ++nopen; if (IN_openfail & 1) { errno = ENOENT; return -1; } ++fd_live; return 7; }
static int verif_close(int fd) { CHECK(fd == 7 && fd_live > 0, "close only what open returned"); ++nclose; --fd_live; return 0; }
static ssize_t verif_read(int fd, void *buf, size_t size)
{
    CHECK(fd == 7 && fd_live > 0, "read only from the open descriptor");
    if (ncalls < KMAX && IN_ev[ncalls] == 4) {      /* short read: fewer bytes than asked */
        int i = ncalls++;
        ((unsigned char *)buf)[0] = IN_os[32 * i];
        return 1;
    }
    return os_call(buf, size, (long)size);
}
#define getrandom verif_getrandom
#define getentropy verif_getentropy
#define syscall verif_syscall
#define open verif_open
#define close verif_close
#define read verif_read
#ifdef CHAIN
#include "kdf_spec.h"
#include "tinyjambu-prng.c"
#endif
#include "random/tinyjambu-trng-dev-random.c"
#undef getrandom
#undef getentropy
#undef syscall
#undef open
#undef close
#undef read

VERIF_MAIN_BEGIN
    unsigned char *out;
    int first = -1, r, open_fails = 0;
#ifdef __CPROVER__
    for (int i = 0; i < KMAX; ++i) IN_ev[i] = nondet_uchar();
    for (int i = 0; i < 32 * KMAX; ++i) IN_os[i] = nondet_uchar();
#else
    verif_native_bytes("ev", IN_ev, KMAX);
    verif_native_bytes("os", IN_os, 32 * KMAX);
    if (argc < 2) { for (int i = 0; i < KMAX; ++i) IN_ev[i] &= 3; IN_ev[KMAX - 1] = 0; }   /* random neighbours: valid scripts */
#endif
    IN_U32(perm_errno); IN_U32(openfail);
#ifndef __CPROVER__
    if (argc < 2) IN_perm_errno = 5;
#endif
    ASSUME(IN_perm_errno != EINTR && IN_perm_errno != EAGAIN && IN_perm_errno != 0 && IN_perm_errno < 4096);
    for (int i = 0; i < KMAX; ++i) {
#ifdef VARIANT_DEV
        ASSUME(IN_ev[i] <= 4);
#else
        ASSUME(IN_ev[i] <= 3);
#endif
    }
    for (int i = KMAX - 1; i >= 0; --i) if (IN_ev[i] == 0 || IN_ev[i] == 3) first = i;
    ASSUME(first >= 0);                         /* a terminal event exists within the script */
#ifdef VARIANT_DEV
    open_fails = (int)(IN_openfail & 1);
#endif
#ifndef CHAIN
    IN_BYTES(out, prior, 32);
    r = tinyjambu_trng_generate(out);
    CHECK(!over, "no OS call beyond the first terminal event");
    if (open_fails) {
        CHECK(r == 0 && ncalls == 0, "device cannot be opened: failure, nothing read");
        for (unsigned j = 0; j < 32; ++j) CHECK(out[j] == 0, "failure leaves a zeroed seed buffer");
    } else {
        CHECK(ncalls == first + 1, "retries transient errors, stops at the first success or permanent error");
        if (IN_ev[first] == 0) {
            CHECK(r != 0, "success is reported");
            for (unsigned j = 0; j < 32; ++j) CHECK(out[j] == IN_os[32 * first + j], "seed is exactly the 32 OS-provided bytes");
        } else {
            CHECK(r == 0, "a permanent error is reported as failure");
            for (unsigned j = 0; j < 32; ++j) CHECK(out[j] == 0, "failure leaves a zeroed seed buffer");
        }
    }
#ifdef VARIANT_DEV
    CHECK(nopen == 1 && nclose == (open_fails ? 0 : 1) && fd_live == 0, "descriptor closed iff opened: no leak");
#else
    CHECK(nopen == 0 && nclose == 0, "no descriptor is opened in the getrandom / getentropy / syscall variants");
#endif
#else
    {
        static tinyjambu_prng_state_t st;
        tinyjambu_prng_state_p_t *pp = (tinyjambu_prng_state_p_t *)&st;
        spec_drbg_t d;
        unsigned char e[32], *custom;
        for (unsigned i = 0; i < 12; ++i) st.s[i] = IN_U64_AT(raw, i);
        IN_BYTES(custom, custom, 4);
        r = tinyjambu_prng_init(&st, custom, 4);
        CHECK(!over && ncalls == first + 1, "one system-source call sequence");
        CHECK((r != 0) == (IN_ev[first] == 0), "prng_init reports 'seeded' exactly when the OS call succeeded");
        for (unsigned j = 0; j < 32; ++j) e[j] = (IN_ev[first] == 0) ? IN_os[32 * first + j] : 0;
        spec_drbg_instantiate(&d, e, IN_custom, 4);
        for (unsigned j = 0; j < 32; ++j) CHECK(pp->V[j] == d.V[j] && pp->C[j] == d.C[j], "state is the model instantiation: usable after failure");
        CHECK(pp->reseed_counter == 1 && pp->reseed_limit == 32, "counter and limit initialised");
        (void)out; (void)open_fails;
    }
#endif
VERIF_MAIN_END
