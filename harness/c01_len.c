/* C01 / C08 / C10 length-truncation probe (bug-hunting facet, DESIGN 12.2(13)).
 * The shape windows cannot reach lengths where a 16-bit or 32-bit loop counter wraps (>= 256 KiB).  This probe makes
 * the LENGTH symbolic instead (up to 2^32) and asks CBMC, with --conversion-check and loops cut after a few
 * iterations (--partial-loops), whether any narrowing conversion in the library can lose bits of a length-derived
 * value.  Only conversion checks are read from this run (everything else is meaningless under --partial-loops);
 * a hit yields a concrete length, which is then replayed NATIVELY through the ordinary round-trip / conformance
 * harness compiled with that length.  Conversions to 8-bit types are ignored here (explicit byte extraction casts
 * are everywhere; 8-bit counters wrap inside the ordinary shape windows).
 * -DAPI=1 AEAD encrypt+decrypt (KS, MODE), 2 hash update, 3 hmac, 4 hkdf expand, 5 pbkdf2, 6 prng generate, 7 clean, 8 check_tag */
#include "verif.h"
#include "TinyJAMBU.h"
#define CAT5_(a,b,c,d,e) a##b##c##d##e
#define CAT5(a,b,c,d,e) CAT5_(a,b,c,d,e)
IN_U64_DECL(len); IN_U64_DECL(len2);
int main(void)
{
    size_t n = IN_U64(len), n2 = IN_U64(len2);
    unsigned char *a, *b, small[64];
    size_t out = 0;
#ifndef LENMAX
#define LENMAX 0xFFFFFFFFull
#endif
    __CPROVER_assume(n <= LENMAX && n2 <= LENMAX);
    a = malloc(n + 16); b = malloc(n + 16);
    __CPROVER_assume(a != 0 && b != 0);
#if API == 1
    CAT5(tinyjambu_, KS, _, MODE, _encrypt)(b, &out, a, n, a, n2 < n ? n2 : n, small, small + 12);
    (void)CAT5(tinyjambu_, KS, _, MODE, _decrypt)(a, &out, b, n + 8, b, n2 < n ? n2 : n, small, small + 12);
#elif API == 2
    { tinyjambu_hash_state_t st; for (unsigned i = 0; i < 7; ++i) st.s[i] = 0; tinyjambu_hash_init(&st); tinyjambu_hash_update(&st, a, n); tinyjambu_hash_finalize(&st, small); }
#elif API == 3
    tinyjambu_hmac(small, a, n2 < n ? n2 : n, b, n);
#elif API == 4
    { tinyjambu_hkdf_state_t st; for (unsigned i = 0; i < 9; ++i) st.s[i] = 0; tinyjambu_hkdf_extract(&st, small, 8, small + 8, 8); (void)tinyjambu_hkdf_expand(&st, small, 4, a, n); (void)tinyjambu_hkdf_expand(&st, small, 4, b, n2 < n ? n2 : n); }
#elif API == 5
    tinyjambu_pbkdf2(a, n, small, 8, small + 8, 8, 2);
#elif API == 6
    { static tinyjambu_prng_state_t st; tinyjambu_prng_generate(&st, a, n); tinyjambu_prng_feed(&st, b, n); }
#elif API == 8
    { extern int tinyjambu_aead_check_tag(unsigned char *, size_t, const unsigned char *, const unsigned char *, size_t);
      (void)tinyjambu_aead_check_tag(a, n, small, small + 8, 8); }
#else
    tinyjambu_clean(a, (unsigned)n);
#endif
    return 0;
}
