/* C01 / C08: encrypt-then-decrypt round trip.
 * -DKS=128|192|256 -DMODE=aead|siv -DADLEN=n -DMLEN=n -DALIAS=0..3
 * ALIAS bit0: encrypt in place (c == m); bit1: decrypt in place (m == c).
 * All of key, nonce, ad, m symbolic.  Output buffers are exact-size heap objects, so
 * "exactly mlen + 8 bytes" is a bounds check as well as a length check. */
#include "verif.h"
#include "TinyJAMBU.h"
#define CAT5_(a,b,c,d,e) a##b##c##d##e
#define CAT5(a,b,c,d,e) CAT5_(a,b,c,d,e)
#define ENC CAT5(tinyjambu_, KS, _, MODE, _encrypt)
#define DEC CAT5(tinyjambu_, KS, _, MODE, _decrypt)
#define KEYLEN (KS/8)
IN_DECL(key, KEYLEN); IN_DECL(npub, 12); IN_DECL(ad, ADLEN); IN_DECL(m, MLEN);
IN_U64_DECL(clen0); IN_U64_DECL(mlen0);

VERIF_MAIN_BEGIN
    unsigned char *key, *npub, *ad, *m, *c, *m2;
    size_t clen, m2len;
    int r;
    IN_BYTES(key, key, KEYLEN); IN_BYTES(npub, npub, 12); IN_BYTES(ad, ad, ADLEN); IN_BYTES(m, m, MLEN);
    clen = IN_U64(clen0); m2len = IN_U64(mlen0);      /* arbitrary prior contents of the length outputs */
    c = verif_alloc(MLEN + 8);
#if ALIAS & 1
    for (size_t i = 0; i < MLEN; ++i) c[i] = IN_m[i];
    ENC(c, &clen, c, MLEN, ad, ADLEN, npub, key);
#else
    ENC(c, &clen, m, MLEN, ad, ADLEN, npub, key);
#endif
    CHECK(clen == (size_t)MLEN + 8, "encrypt reports clen == mlen + 8");
#if ALIAS & 2
    m2 = c;
#else
    m2 = verif_alloc(MLEN);
#endif
    r = DEC(m2, &m2len, c, clen, ad, ADLEN, npub, key);
    CHECK(r == 0, "decrypt(encrypt(m)) returns 0");
    CHECK(m2len == MLEN, "decrypt reports the original length");
    for (size_t i = 0; i < MLEN; ++i) CHECK(m2[i] == IN_m[i], "decrypt(encrypt(m)) == m");
    for (size_t i = 0; i < ADLEN; ++i) CHECK(ad[i] == IN_ad[i], "ad unmodified");
    for (size_t i = 0; i < KEYLEN; ++i) CHECK(key[i] == IN_key[i], "key unmodified");
    for (size_t i = 0; i < 12; ++i) CHECK(npub[i] == IN_npub[i], "nonce unmodified");
#if !(ALIAS & 1)
    for (size_t i = 0; i < MLEN; ++i) CHECK(m[i] == IN_m[i], "plaintext input unmodified");
#endif
VERIF_MAIN_END
