/* Shared harness conventions.
 *
 * The same harness file is (a) given to CBMC, where IN_* inputs are symbolic, and
 * (b) compiled natively with gcc against the REAL library sources (real permutation, real
 * hash) for replay, where IN_* inputs come from a replay file ("name=hex" lines; names
 * missing from the file are filled from a PRNG seeded by VERIF_SEED - used for the
 * "random neighbours of the same shape" fallback of DESIGN.md section 4).
 *
 * Every symbolic input is mirrored into a global IN_<name> so that the CBMC JSON trace
 * carries it by name.  All caller buffers handed to the library are exact-size heap
 * objects (NULL when the size is 0), so any access outside the declared range fails
 * CBMC's pointer checks for every data value.
 */
#ifndef VERIF_H
#define VERIF_H
#include <stddef.h>
#include <stdint.h>
#include <stdlib.h>

#define VCAT3_(a,b,c) a##b##c
#define VCAT3(a,b,c) VCAT3_(a,b,c)

#ifdef __CPROVER__
unsigned char nondet_uchar(void);
unsigned nondet_unsigned(void);
unsigned long nondet_ulong(void);
int nondet_int(void);
#define CHECK(cond, desc) __CPROVER_assert((cond), desc)
#define ASSUME(cond) __CPROVER_assume(cond)
/* reachability witness: must come back FAILURE, otherwise the harness is vacuous */
#define WITNESS() __CPROVER_assert(0, "WITNESS reachability")
/* negated-dependence query: the solver must REFUTE cond (find values making it false); if it
 * proves cond instead, the outputs do not depend on what they must depend on -> violation.
 * The driver inverts the verdict of assertions whose description starts with MUSTFAIL. */
#define MUSTFAIL(cond, desc) __CPROVER_assert((cond), "MUSTFAIL " desc)
/* -DVERIF_ALIGN=k (default 0): every caller buffer starts k bytes into its heap object.  CBMC places object bases
 * at multiples of the word size, so k is the buffer's address modulo 4/8: code that inspects the pointer value
 * ((uintptr_t)p & 3) or takes an alignment-dependent path is then exercised on that path.  With k == 0 the buffer is
 * the whole object (reads before its start are bounds failures too); with k > 0 only its end is exact. */
#ifndef VERIF_ALIGN
#define VERIF_ALIGN 0
#endif
static inline unsigned char *verif_alloc(size_t n)
{
    unsigned char *p;
    if (!n) return 0;
    p = (unsigned char *)malloc(n + VERIF_ALIGN);
    __CPROVER_assume(p != 0);
    return p + VERIF_ALIGN;
}
#define IN_DECL(name, maxn) unsigned char IN_##name[(maxn) > 0 ? (maxn) : 1]
/* exact-size buffer of n symbolic bytes, mirrored in IN_<name> */
#define IN_BYTES(ptr, name, n) do { size_t _n = (n); (ptr) = verif_alloc(_n); \
        for (size_t _i = 0; _i < _n; ++_i) { IN_##name[_i] = nondet_uchar(); (ptr)[_i] = IN_##name[_i]; } } while (0)
/* fill an existing object with n symbolic bytes */
#define IN_FILL(ptr, name, n) do { size_t _n = (n); \
        for (size_t _i = 0; _i < _n; ++_i) { IN_##name[_i] = nondet_uchar(); ((unsigned char *)(ptr))[_i] = IN_##name[_i]; } } while (0)
#define IN_U32_DECL(name) uint32_t IN_##name
#define IN_U32(name) (IN_##name = nondet_unsigned())
#define IN_U64_DECL(name) uint64_t IN_##name
#define IN_U64(name) (IN_##name = nondet_ulong())
#define IN_U64_AT(name, i) (IN_##name[i] = nondet_ulong())     /* element i of a uint64_t IN_<name>[] array */
#else /* native replay */
#include <stdio.h>
#include <string.h>
void verif_native_init(int argc, char **argv);
void verif_native_bytes(const char *name, unsigned char *p, size_t n);
uint64_t verif_native_u64(const char *name);
uint64_t verif_native_u64_idx(const char *name, unsigned idx);
#define CHECK(cond, desc) do { if (!(cond)) { printf("ASSERT-FAIL %s:%d %s\n", __FILE__, __LINE__, desc); fflush(stdout); exit(1); } } while (0)
#define ASSUME(cond) do { if (!(cond)) { printf("ASSUME-UNMET %s:%d\n", __FILE__, __LINE__); fflush(stdout); exit(77); } } while (0)
#define WITNESS() do { printf("REPLAY-END\n"); } while (0)
#define MUSTFAIL(cond, desc) do { if (cond) { printf("ASSERT-FAIL %s:%d independence: %s\n", __FILE__, __LINE__, desc); fflush(stdout); exit(1); } } while (0)
#ifndef VERIF_ALIGN
#define VERIF_ALIGN 0
#endif
static inline unsigned char *verif_alloc(size_t n)
{
    unsigned char *p;
    if (!n) return 0;
    p = (unsigned char *)malloc(n + VERIF_ALIGN);      /* glibc malloc is 16-byte aligned */
    if (!p) abort();
    return p + VERIF_ALIGN;
}
#define IN_DECL(name, maxn) unsigned char IN_##name[(maxn) > 0 ? (maxn) : 1]
#define IN_BYTES(ptr, name, n) do { size_t _n = (n); (ptr) = verif_alloc(_n); \
        verif_native_bytes(#name, IN_##name, _n); if (_n) memcpy((ptr), IN_##name, _n); } while (0)
#define IN_FILL(ptr, name, n) do { size_t _n = (n); \
        verif_native_bytes(#name, IN_##name, _n); if (_n) memcpy((ptr), IN_##name, _n); } while (0)
#define IN_U32_DECL(name) uint32_t IN_##name
#define IN_U32(name) (IN_##name = (uint32_t)verif_native_u64(#name))
#define IN_U64_DECL(name) uint64_t IN_##name
#define IN_U64(name) (IN_##name = verif_native_u64(#name))
#define IN_U64_AT(name, i) (IN_##name[i] = verif_native_u64_idx(#name, (unsigned)(i)))
#define __CPROVER_assume(c) ASSUME(c)
#endif

#ifdef __CPROVER__
#define VERIF_MAIN_BEGIN int main(void) {
#else
#define VERIF_MAIN_BEGIN int main(int argc, char **argv) { verif_native_init(argc, argv);
#endif
#define VERIF_MAIN_END WITNESS(); return 0; }

#endif
