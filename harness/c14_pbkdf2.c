/* C14: TinyJAMBU-PBKDF2 == RFC 8018 over the real tinyjambu-hmac.c and the abstract hash.
 * -DVARIANT:
 *  0 the F function directly (the TU is #included to reach the static function): symbolic 32-bit block
 *    number, -DCOUNT iterations, PWLEN, SALTLEN: T == U1 ^ ... ^ Uc with U1 = PRF(P, S || INT32BE(i))
 *  1 the whole function: OUTLEN, COUNT, PWLEN, SALTLEN == RFC output (exact-size output buffer)
 *  2 outer-loop contract for MANY blocks (-DOUTLEN up to > 255 blocks): the real goto program of
 *    tinyjambu_pbkdf2 with the body of F replaced by a stub writing a known function of the block number;
 *    block i (from 1) lands at offset 32(i-1), the last block is truncated, exactly OUTLEN bytes written */
#include "verif.h"
#include "kdf_spec.h"
#ifndef PWLEN
#define PWLEN 0
#endif
#ifndef SALTLEN
#define SALTLEN 0
#endif
#ifndef OUTLEN
#define OUTLEN 32
#endif
#ifndef COUNT
#define COUNT 1
#endif
IN_DECL(pw, PWLEN); IN_DECL(salt, SALTLEN); IN_U32_DECL(blocknum); IN_DECL(outprior, OUTLEN);
#if VARIANT == 2
#include "TinyJAMBU.h"
static unsigned long ncalls, bad;
static const unsigned char *e_pw, *e_salt; static size_t e_pwlen, e_saltlen; static unsigned long e_count;
/* stands in for the static F: T = pattern(blocknum) */
void tinyjambu_pbkdf2_f(tinyjambu_hmac_state_t *state, unsigned char *T, unsigned char *U,
                        const unsigned char *password, size_t passwordlen,
                        const unsigned char *salt, size_t saltlen, unsigned long count, unsigned long blocknum)
{
    (void)state; (void)U;
    ++ncalls;
    if (blocknum != ncalls || password != e_pw || passwordlen != e_pwlen || salt != e_salt ||
        saltlen != e_saltlen || count != e_count) bad = 1;
    for (unsigned j = 0; j < 32; ++j) T[j] = (unsigned char)(blocknum * 7 + j * 13 + (blocknum >> 8));
}
#else
#include "tinyjambu-pbkdf2.c"
#endif

VERIF_MAIN_BEGIN
    unsigned char *pw, *salt, *out;
    IN_BYTES(pw, pw, PWLEN); IN_BYTES(salt, salt, SALTLEN);
#if VARIANT == 0
    {
        tinyjambu_hmac_state_t st;
        unsigned char *T = verif_alloc(32), *U = verif_alloc(32), exp[32];
        unsigned long bn = IN_U32(blocknum);
        tinyjambu_pbkdf2_f(&st, T, U, pw, PWLEN, salt, SALTLEN, COUNT, bn);
        spec_pbkdf2_F(exp, IN_pw, PWLEN, IN_salt, SALTLEN, COUNT, (uint32_t)bn);
        for (unsigned i = 0; i < 32; ++i) CHECK(T[i] == exp[i], "F == U1 ^ ... ^ Uc (RFC 8018 5.2), count 0 behaves as 1");
        for (unsigned i = 0; i < sizeof(st.hash.s) / sizeof(st.hash.s[0]); ++i) CHECK(st.hash.s[i] == 0, "F wipes its HMAC state");
    }
#elif VARIANT == 1
    {
        unsigned char exp[OUTLEN + 1];
        IN_BYTES(out, outprior, OUTLEN);
        tinyjambu_pbkdf2(out, OUTLEN, pw, PWLEN, salt, SALTLEN, COUNT);
        spec_pbkdf2(exp, OUTLEN, IN_pw, PWLEN, IN_salt, SALTLEN, COUNT);
        for (size_t i = 0; i < OUTLEN; ++i) CHECK(out[i] == exp[i], "PBKDF2 output equals RFC 8018");
    }
#else
    {
        unsigned long count = IN_U32(blocknum);
        IN_BYTES(out, outprior, OUTLEN);
        e_pw = pw; e_pwlen = PWLEN; e_salt = salt; e_saltlen = SALTLEN; e_count = count;
        tinyjambu_pbkdf2(out, OUTLEN, pw, PWLEN, salt, SALTLEN, count);
        CHECK(ncalls == (OUTLEN + 31) / 32, "one F call per 32-byte block");
        CHECK(!bad, "F is called with block numbers 1, 2, 3, ... and the caller's password / salt / count");
        for (size_t i = 0; i < OUTLEN; ++i) {
            unsigned long b = i / 32 + 1; unsigned j = (unsigned)(i % 32);
            CHECK(out[i] == (unsigned char)(b * 7 + j * 13 + (b >> 8)), "block i is written at offset 32(i-1), last block truncated");
        }
    }
#endif
    for (size_t i = 0; i < PWLEN; ++i) CHECK(pw[i] == IN_pw[i], "password unmodified");
    for (size_t i = 0; i < SALTLEN; ++i) CHECK(salt[i] == IN_salt[i], "salt unmodified");
VERIF_MAIN_END
