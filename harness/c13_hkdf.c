/* C13: TinyJAMBU-HKDF == RFC 5869 over the real tinyjambu-hmac.c and the abstract hash.
 * -DVARIANT:
 *  0 (removed: the one-shot wrapper keeps its state in an uninitialised local of the public type, whose
 *    byte-punned fields CBMC's symex cannot constant-propagate; it is decided by variant 5 + variant 1)
 *  1 extract + expand(E1) + expand(E2) + expand(E3) == RFC stream prefix of E1+E2+E3 bytes
 *  2 inductive step of tinyjambu_hkdf_expand from an ARBITRARY state:
 *      prk, out(=T(n-1)) symbolic; counter n: -DCOUNTER=c concrete, or -DCOUNTER_SYM lo..hi symbolic;
 *      posn = -DPOSN; request -DREQ bytes; INFOLEN
 *  4 empty salt == 32 zero bytes (two extract runs compared)
 *  5 call contract of the one-shot wrapper tinyjambu_hkdf, ALL lengths and pointers symbolic: its real goto
 *    program with the bodies of extract/expand/clean removed (goto-instrument) and replaced by recording
 *    stubs: outlen <= 8160 -> extract(st,key,keylen,salt,saltlen); expand(st,info,infolen,out,outlen);
 *    clean(st,72); return 0 - outlen > 8160 -> return -1 with no call at all (so nothing is written or derived) */
#include "verif.h"
#include "kdf_spec.h"
#if VARIANT == 5
#include "TinyJAMBU.h"
static int rec_n, rec_kind[4];
static const void *rec_st[4], *rec_key, *rec_salt, *rec_info, *rec_out;
static size_t rec_keylen, rec_saltlen, rec_infolen, rec_outlen, rec_cleanlen;
void tinyjambu_hkdf_extract(tinyjambu_hkdf_state_t *state, const unsigned char *key, size_t keylen,
                            const unsigned char *salt, size_t saltlen)
{ if (rec_n < 4) { rec_kind[rec_n] = 1; rec_st[rec_n] = state; } ++rec_n; rec_key = key; rec_keylen = keylen; rec_salt = salt; rec_saltlen = saltlen; }
int tinyjambu_hkdf_expand(tinyjambu_hkdf_state_t *state, const unsigned char *info, size_t infolen,
                          unsigned char *out, size_t outlen)
{ if (rec_n < 4) { rec_kind[rec_n] = 2; rec_st[rec_n] = state; } ++rec_n; rec_info = info; rec_infolen = infolen; rec_out = out; rec_outlen = outlen; return 0; }
void tinyjambu_clean(void *buf, unsigned size)
{ if (rec_n < 4) { rec_kind[rec_n] = 3; rec_st[rec_n] = buf; } ++rec_n; rec_cleanlen = size; }
#else
#include "tinyjambu-hkdf.c"
#endif
#ifndef OUTLEN
#define OUTLEN 0
#endif
#ifndef KEYLEN
#define KEYLEN 0
#endif
#ifndef SALTLEN
#define SALTLEN 0
#endif
#ifndef INFOLEN
#define INFOLEN 0
#endif
#ifndef E1
#define E1 0
#define E2 0
#define E3 0
#endif
#ifndef REQ
#define REQ 0
#endif
#ifndef POSN
#define POSN 32
#endif
#define TOT (OUTLEN + E1 + E2 + E3 + REQ)
IN_DECL(key, KEYLEN); IN_DECL(salt, SALTLEN); IN_DECL(info, INFOLEN); IN_DECL(prk, 32); IN_DECL(tprev, 32);
IN_DECL(outprior, TOT); IN_U32_DECL(counter); IN_U64_DECL(biglen); IN_U64_DECL(klen); IN_U64_DECL(slen); IN_U64_DECL(ilen);

VERIF_MAIN_BEGIN
    unsigned char *key, *salt, *info, *out;
    unsigned char exp[TOT + 1];
    int r;
    IN_BYTES(key, key, KEYLEN); IN_BYTES(salt, salt, SALTLEN); IN_BYTES(info, info, INFOLEN);
    IN_BYTES(out, outprior, TOT);
#if VARIANT == 0
#error removed
#elif VARIANT == 1
    {
        static tinyjambu_hkdf_state_p_t ps;      /* exactly the private struct (66 of the public 72 bytes) */
        tinyjambu_hkdf_state_t *st = (tinyjambu_hkdf_state_t *)&ps;
        IN_FILL(ps.prk, prk, 32); IN_FILL(ps.out, tprev, 32);    /* arbitrary prior contents */
        ps.counter = (unsigned char)IN_U32(counter); ps.posn = (unsigned char)(IN_counter >> 8);
        tinyjambu_hkdf_extract(st, key, KEYLEN, salt, SALTLEN);
        r = tinyjambu_hkdf_expand(st, info, INFOLEN, out, E1);
        CHECK(r == 0, "expand within range returns 0");
        r = tinyjambu_hkdf_expand(st, info, INFOLEN, TOT ? out + E1 : 0, E2);
        CHECK(r == 0, "expand within range returns 0");
        r = tinyjambu_hkdf_expand(st, info, INFOLEN, TOT ? out + E1 + E2 : 0, E3);
        CHECK(r == 0, "expand within range returns 0");
    }
    spec_hkdf(exp, TOT, IN_key, KEYLEN, IN_salt, SALTLEN, IN_info, INFOLEN);
    for (size_t i = 0; i < TOT; ++i) CHECK(out[i] == exp[i], "concatenated expand output equals the one-shot RFC 5869 stream");
#elif VARIANT == 2
    {
        /* the object is exactly the private struct: touching the public type's padding is a bounds failure */
        static tinyjambu_hkdf_state_p_t ps;
        unsigned char cur[32], nxt[32], prk[32];
        unsigned n, pos = POSN, exp_ret = 0;
        size_t i;
        IN_FILL(ps.prk, prk, 32); IN_FILL(ps.out, tprev, 32);
#ifdef COUNTER_SYM
        n = IN_U32(counter) & 0xFF;
        ASSUME(n >= COUNTER_LO && n <= COUNTER_HI);
#else
        n = COUNTER;
#endif
        ps.counter = (unsigned char)n;
        ps.posn = POSN;
        for (i = 0; i < 32; ++i) { cur[i] = IN_tprev[i]; prk[i] = IN_prk[i]; }
        r = tinyjambu_hkdf_expand((tinyjambu_hkdf_state_t *)&ps, info, INFOLEN, out, REQ);
        for (i = 0; i < REQ; ++i) {
            if (pos == 32) {
                if (n == 0) { exp_ret = 1; break; }               /* T(255) was the last block */
                spec_hkdf_block(nxt, prk, cur, IN_info, INFOLEN, n);
                for (unsigned j = 0; j < 32; ++j) cur[j] = nxt[j];
                n = (n + 1) & 0xFF;
                pos = 0;
            }
            exp[i] = cur[pos++];
        }
        for (; i < REQ; ++i) exp[i] = 0;                           /* everything past byte 8160 is zero-filled */
        CHECK(r == (exp_ret ? -1 : 0), "expand returns -1 exactly when the request passes byte 8160");
        for (i = 0; i < REQ; ++i) CHECK(out[i] == exp[i], "expand continues the RFC 5869 stream (zero-filled past the end)");
        CHECK(ps.counter == (unsigned char)n, "post-state: block counter");
        if (!exp_ret) CHECK(ps.posn == pos, "post-state: position in the current block");
        for (i = 0; i < 32; ++i) CHECK(ps.out[i] == cur[i], "post-state: current block T(n-1)");
        for (i = 0; i < 32; ++i) CHECK(ps.prk[i] == prk[i], "post-state: prk unchanged");
    }
#elif VARIANT == 4
    {
        static tinyjambu_hkdf_state_p_t p1, p2;
        unsigned char zeros[32];
        for (unsigned i = 0; i < 32; ++i) zeros[i] = 0;
        tinyjambu_hkdf_extract((tinyjambu_hkdf_state_t *)&p1, key, KEYLEN, 0, 0);
        tinyjambu_hkdf_extract((tinyjambu_hkdf_state_t *)&p2, key, KEYLEN, zeros, 32);
        for (unsigned i = 0; i < 32; ++i) CHECK(p1.prk[i] == p2.prk[i], "empty salt equals 32 zero bytes");
        CHECK(p1.counter == 1 && p1.posn == 32 && p2.counter == 1 && p2.posn == 32, "extract starts the stream at T(1)");
    }
#elif VARIANT == 5
    {
        size_t outlen = IN_U64(biglen), keylen = IN_U64(klen), saltlen = IN_U64(slen), infolen = IN_U64(ilen);
        unsigned char dummy[4];
        r = tinyjambu_hkdf(dummy, outlen, dummy + 1, keylen, dummy + 2, saltlen, dummy + 3, infolen);
        if (outlen > 8160) {
            CHECK(r == -1, "one-shot requests beyond 8160 bytes are refused with -1");
            CHECK(rec_n == 0, "refused request calls nothing: no write, no key material");
        } else {
            CHECK(r == 0, "requests up to 8160 bytes return 0");
            CHECK(rec_n == 3 && rec_kind[0] == 1 && rec_kind[1] == 2 && rec_kind[2] == 3, "extract, expand, clean in this order");
            CHECK(rec_key == dummy + 1 && rec_keylen == keylen && rec_salt == dummy + 2 && rec_saltlen == saltlen, "extract gets (key, salt)");
            CHECK(rec_info == dummy + 3 && rec_infolen == infolen && rec_out == dummy && rec_outlen == outlen, "expand gets (info, out, outlen)");
            CHECK(rec_st[0] == rec_st[1] && rec_st[1] == rec_st[2] && rec_cleanlen == sizeof(tinyjambu_hkdf_state_t), "one state object, wiped in full");
        }
    }
#endif
    for (size_t i = 0; i < KEYLEN; ++i) CHECK(key[i] == IN_key[i], "key unmodified");
    for (size_t i = 0; i < SALTLEN; ++i) CHECK(salt[i] == IN_salt[i], "salt unmodified");
    for (size_t i = 0; i < INFOLEN; ++i) CHECK(info[i] == IN_info[i], "info unmodified");
VERIF_MAIN_END
