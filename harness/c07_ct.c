/* C07: control flow is independent of secrets (self-composition over a branch trace).
 * The library TUs (and the libc byte-loop stubs) are compiled by goto-cc and instrumented with
 * `goto-instrument --branch ct_obs`: every conditional jump reports taken / not-taken to ct_obs().
 * The harness runs the SAME operation twice with equal public inputs (lengths, counts, positions, key-length
 * class, delivered entropy size - all concrete here) and INDEPENDENT symbolic secrets, and asserts that the two
 * branch traces are identical.  Natively (replay) the library is built with -fsanitize-coverage=trace-pc and the
 * two basic-block traces are compared.  -DAPI=... selects the operation. */
#include "verif.h"
#include "TinyJAMBU.h"
#ifndef TRMAX
#define TRMAX 6000
#endif
static unsigned char tr[TRMAX];      /* decisions of run 0 */
static unsigned cnt[2];
static int cur = -1;
static int mismatch;
void ct_obs(const char *what)
{
    if (cur >= 0) {
        unsigned char bit = (what[0] == 't');
        unsigned i = cnt[cur]++;
        if (i < TRMAX) {
            if (cur == 0) tr[i] = bit;
            else if (tr[i] != bit) mismatch = 1;      /* run 1 is compared with run 0 decision by decision */
        }
    }
}
#ifndef __CPROVER__
static uint64_t pch[2];
void __sanitizer_cov_trace_pc(void)
{
    if (cur >= 0) { pch[cur] = (pch[cur] * 1099511628211ULL) ^ (uint64_t)(uintptr_t)__builtin_return_address(0); ++cnt[cur]; }
}
#endif
#define CAT5_(a,b,c,d,e) a##b##c##d##e
#define CAT5(a,b,c,d,e) CAT5_(a,b,c,d,e)
#ifndef KS
#define KS 128
#endif
#ifndef VL1
#define VL1 0
#endif
#ifndef VL2
#define VL2 0
#endif
#ifndef VL3
#define VL3 0
#endif
#define SEC(name, n) IN_DECL(name##_0, n); IN_DECL(name##_1, n)
#define GET(ptr, name, n, r) do { if (r) IN_BYTES(ptr, name##_1, n); else IN_BYTES(ptr, name##_0, n); } while (0)
SEC(a, 256); SEC(b, 256); SEC(c, 256); SEC(d, 256); SEC(e, 64);

#if API == 20
static unsigned char *ent;
static size_t cb(void *ud, unsigned char *buf, size_t size) { (void)ud; (void)size; for (unsigned i = 0; i < VL3; ++i) buf[i] = ent[i]; return VL3; }
#endif
#if API == 11
int tinyjambu_aead_check_tag(unsigned char *p, size_t n, const unsigned char *t1, const unsigned char *t2, size_t s);
#endif
#if API == 30
#include "backend/tinyjambu-backend.h"
#endif

static void run(int r)
{
    unsigned char *a, *b, *c, *d, *e, *o;
    size_t n = 0;
    (void)a; (void)b; (void)c; (void)d; (void)e; (void)o; (void)n;
#if API == 1          /* AEAD encrypt: key, nonce, ad(VL1), m(VL2) secret */
    GET(a, a, KS / 8, r); GET(b, b, 12, r); GET(c, c, VL1, r); GET(d, d, VL2, r); o = verif_alloc(VL2 + 8);
    cur = r; CAT5(tinyjambu_, KS, _, MODE, _encrypt)(o, &n, d, VL2, c, VL1, b, a); cur = -1;
#elif API == 2        /* decrypt of an arbitrary packet: key, nonce, ad(VL1), body(VL2) and tag secret; the verdict may differ */
    GET(a, a, KS / 8, r); GET(b, b, 12, r); GET(c, c, VL1, r); GET(d, d, VL2 + 8, r); o = verif_alloc(VL2);
    cur = r; (void)CAT5(tinyjambu_, KS, _, MODE, _decrypt)(o, &n, d, VL2 + 8, c, VL1, b, a); cur = -1;
#elif API == 11       /* check_tag on the real code: tags and plaintext secret */
    GET(a, a, 8, r); GET(b, b, 8, r); GET(c, c, VL1, r);
    cur = r; (void)tinyjambu_aead_check_tag(c, VL1, a, b, 8); cur = -1;
#elif API == 12       /* hash: message(VL1) secret, fed as VL2 + (VL1-VL2) */
    { tinyjambu_hash_state_t st; GET(a, a, VL1, r); o = verif_alloc(32);
      for (unsigned i = 0; i < 7; ++i) st.s[i] = 0;
      cur = r; tinyjambu_hash_init(&st); tinyjambu_hash_update(&st, a, VL2); tinyjambu_hash_update(&st, VL1 ? a + VL2 : 0, VL1 - VL2);
      tinyjambu_hash_finalize(&st, o); tinyjambu_hash_free(&st); cur = -1; }
#elif API == 13       /* HMAC: key(VL1), message(VL2) secret */
    GET(a, a, VL1, r); GET(b, b, VL2, r); o = verif_alloc(32);
    cur = r; tinyjambu_hmac(o, a, VL1, b, VL2); cur = -1;
#elif API == 14       /* HKDF extract + expand: key(VL1), salt(VL2), info(4) secret, VL3 output bytes (state zeroed with typed stores, DESIGN 5.2) */
    { tinyjambu_hkdf_state_t st; GET(a, a, VL1, r); GET(b, b, VL2, r); GET(c, c, 4, r); o = verif_alloc(VL3);
      for (unsigned i = 0; i < sizeof(st.s) / sizeof(st.s[0]); ++i) st.s[i] = 0;
      cur = r; tinyjambu_hkdf_extract(&st, a, VL1, b, VL2); (void)tinyjambu_hkdf_expand(&st, c, 4, o, VL3); tinyjambu_hkdf_free(&st); cur = -1; }
#elif API == 15       /* PBKDF2: password(VL1), salt(VL2) secret; count COUNT and VL3 output bytes public */
    GET(a, a, VL1, r); GET(b, b, VL2, r); o = verif_alloc(VL3);
    cur = r; tinyjambu_pbkdf2(o, VL3, a, VL1, b, VL2, COUNT); cur = -1;
#elif API == 16       /* clean */
    GET(a, a, VL1, r);
    cur = r; tinyjambu_clean(a, VL1); cur = -1;
#elif API == 20       /* PRNG: V, C, delivered entropy (VL3 bytes), fed data secret; counter CTR / limit LIMIT public */
    {   /* the state is built through the public type with whole-word stores (layout: V[32] C[32] u32 counter, u32 limit, callback, user_data) */
        static tinyjambu_prng_state_t ps[2]; GET(a, a, 32, r); GET(b, b, 32, r); GET(c, c, 32, r); GET(d, d, 8, r); o = verif_alloc(VL1 ? VL1 : 1);
        for (unsigned i = 0; i < 4; ++i) { uint64_t v = 0, w = 0; for (unsigned j = 0; j < 8; ++j) { v |= (uint64_t)a[8 * i + j] << (8 * j); w |= (uint64_t)b[8 * i + j] << (8 * j); }
                                           ps[r].s[i] = v; ps[r].s[4 + i] = w; }
        ps[r].s[8] = (uint64_t)CTR | ((uint64_t)LIMIT << 32); ps[r].s[9] = (uint64_t)(uintptr_t)cb; ps[r].s[10] = 0; ps[r].s[11] = 0; ent = c;
        cur = r; tinyjambu_prng_generate(&ps[r], o, VL1);
        tinyjambu_prng_feed(&ps[r], d, VL2);
        (void)tinyjambu_prng_reseed(&ps[r]); cur = -1; }
#elif API == 30       /* the real portable permutation: state and key secret, rounds public */
    { static CAT5(tinyjambu_, KS, _state_t, , ) st[2]; GET(a, a, 16 + KS / 8, r);
      for (unsigned i = 0; i < 4; ++i) st[r].s[i] = le_load_word32(a + 4 * i);
      for (unsigned i = 0; i < KS / 32; ++i) st[r].k[i] = le_load_word32(a + 16 + 4 * i);
      cur = r; CAT5(tinyjambu_permutation_, KS, , , )(&st[r], VL1); cur = -1; }
#endif
}

VERIF_MAIN_BEGIN
    run(0);
    run(1);
    CHECK(cnt[0] < TRMAX, "trace buffer large enough (harness bound)");
    CHECK(cnt[0] == cnt[1], "same number of conditional branches whatever the secrets");
#ifdef __CPROVER__
    CHECK(!mismatch, "same branch decisions whatever the secrets");
    CHECK(cnt[0] > 0, "instrumentation active (at least one branch observed)");
#else
    CHECK(pch[0] == pch[1], "same basic-block trace whatever the secrets");
#endif
VERIF_MAIN_END
