/* C03(a) / C04: tinyjambu_aead_check_tag on the REAL code, no abstraction.
 * -DPLEN=n ; all 2^64 x 2^64 tag pairs and all plaintext bytes in one query. */
#include "verif.h"
#include "backend/tinyjambu-util.h"
int tinyjambu_aead_check_tag(unsigned char *plaintext, size_t plaintext_len,
                             const unsigned char *tag1, const unsigned char *tag2, size_t size);
IN_DECL(t1, 8); IN_DECL(t2, 8); IN_DECL(p, PLEN);

VERIF_MAIN_BEGIN
    unsigned char *t1, *t2, *p;
    int r, eq = 1;
    IN_BYTES(t1, t1, 8); IN_BYTES(t2, t2, 8); IN_BYTES(p, p, PLEN);
    r = tinyjambu_aead_check_tag(p, PLEN, t1, t2, 8);
    for (size_t i = 0; i < 8; ++i) if (IN_t1[i] != IN_t2[i]) eq = 0;
    CHECK(r == (eq ? 0 : -1), "check_tag returns 0 iff all 64 bits are equal, -1 otherwise");
    for (size_t i = 0; i < PLEN; ++i)
        CHECK(p[i] == (eq ? IN_p[i] : 0), "plaintext kept on match, every byte zeroed on mismatch");
    for (size_t i = 0; i < 8; ++i) CHECK(t1[i] == IN_t1[i] && t2[i] == IN_t2[i], "tags unmodified");
VERIF_MAIN_END
