/* C05, portable C backend (real tinyjambu-N-c32.c, no abstraction).  -DVARIANT:
 *  1 Lemma A: the real tinyjambu_steps_32 macro (pre-inverted key word) followed by the word rotation
 *    equals 32 steps of the specification's bit-serial NLFSR with the true key word - all s, k.
 *  2 Lemma B (-DKS, -DROUNDS=r): the real tinyjambu_permutation_KS(state, r) equals the word-level chain
 *    "for j < 4r: s <- rotate(B32(s, k[j mod KW]))" built from the same macro; k[] unchanged; only s[] written.
 *  3 direct (-DKS, -DROUNDS): the real function equals the bit-serial NLFSR with the true key (small r).
 * A o B = "the real function equals 128*r NLFSR steps with key bit (i mod keybits)" (equational). */
#include "verif.h"
#include "backend/tinyjambu-backend.h"
#include "tj_spec.h"
#ifndef KS
#define KS 128
#endif
#ifndef ROUNDS
#define ROUNDS 1
#endif
#define KW (KS / 32)
#define CAT2_(a,b) a##b
#define CAT2(a,b) CAT2_(a,b)
#define CAT3_(a,b,c) a##b##c
#define CAT3(a,b,c) CAT3_(a,b,c)
#define PERM CAT2(tinyjambu_permutation_, KS)
#define STATE_T CAT3(tinyjambu_, KS, _state_t)
IN_DECL(s, 16); IN_DECL(k, KS / 8);

VERIF_MAIN_BEGIN
    unsigned char sb[16], kb[KS / 8];
    uint32_t w[4], kinv[KW];
    IN_FILL(sb, s, 16); IN_FILL(kb, k, KS / 8);
    for (unsigned j = 0; j < 4; ++j) w[j] = le_load_word32(sb + 4 * j);
    for (unsigned j = 0; j < KW; ++j) kinv[j] = ~le_load_word32(kb + 4 * j);    /* pre-inverted, as the callers store it */
#if VARIANT == 1
    {
        uint32_t t1, t2, t3, t4, s0 = w[0], s1 = w[1], s2 = w[2], s3 = w[3];
        spec_state_t S;
        tinyjambu_steps_32(s0, s1, s2, s3, kinv[0]);
        for (unsigned j = 0; j < 4; ++j) S.w[j] = w[j];
        spec_update_bitserial(&S, kb, 32, 32);       /* 32 steps, key bits = the true first key word */
        CHECK(S.w[0] == s1 && S.w[1] == s2 && S.w[2] == s3 && S.w[3] == s0, "Lemma A: word-sliced block == 32 bit-serial NLFSR steps");
    }
#else
    {
        static STATE_T st;                              /* exact-size object */
        for (unsigned j = 0; j < 4; ++j) st.s[j] = w[j];
        for (unsigned j = 0; j < KW; ++j) st.k[j] = kinv[j];
        PERM(&st, ROUNDS);
#if VARIANT == 2
        {
            uint32_t t1, t2, t3, t4, a = w[0], b = w[1], c = w[2], d = w[3], n;
            for (unsigned j = 0; j < 4 * ROUNDS; ++j) {
                tinyjambu_steps_32(a, b, c, d, kinv[j % KW]);
                n = a; a = b; b = c; c = d; d = n;
            }
            CHECK(st.s[0] == a && st.s[1] == b && st.s[2] == c && st.s[3] == d, "Lemma B: real permutation == word-level chain with key word j mod KW");
        }
#else
        {
            spec_state_t S;
            for (unsigned j = 0; j < 4; ++j) S.w[j] = w[j];
            spec_update_bitserial(&S, kb, KS, 128 * ROUNDS);
            for (unsigned j = 0; j < 4; ++j) CHECK(st.s[j] == S.w[j], "real permutation == bit-serial NLFSR of the specification");
        }
#endif
        for (unsigned j = 0; j < KW; ++j) CHECK(st.k[j] == kinv[j], "key words unchanged");
    }
#endif
VERIF_MAIN_END
