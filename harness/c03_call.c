/* C03 / C04 / C08 call contract: the decrypt function's verdict IS
 * tinyjambu_aead_check_tag(m, clen-8, <specification tag>, c + clen - 8, 8), with the
 * specification's candidate plaintext already in m.  tinyjambu-util.c is NOT linked; the
 * recording stub below stands in, and C03(a) decides the real check_tag separately.
 * Counterexamples here replay natively without needing a tag collision.
 * -DKS -DMODE -DADLEN -DMLEN -DINPLACE [-DMODE_SIV] */
#include "verif.h"
#include "TinyJAMBU.h"
#include "tj_spec.h"
#define CAT5_(a,b,c,d,e) a##b##c##d##e
#define CAT5(a,b,c,d,e) CAT5_(a,b,c,d,e)
#define DEC CAT5(tinyjambu_, KS, _, MODE, _decrypt)
#define KEYLEN (KS/8)
IN_DECL(key, KEYLEN); IN_DECL(npub, 12); IN_DECL(ad, ADLEN); IN_DECL(body, MLEN); IN_DECL(tin, 8);
IN_DECL(mprior, MLEN); IN_U32_DECL(verdict);

static int ncalls;
static unsigned char *rec_p; static size_t rec_plen, rec_size;
static const unsigned char *rec_t2;
static unsigned char rec_t1[8], rec_plain[MLEN + 1];
static int stub_ret;

int tinyjambu_aead_check_tag(unsigned char *plaintext, size_t plaintext_len,
                             const unsigned char *tag1, const unsigned char *tag2, size_t size)
{
    ++ncalls;
    rec_p = plaintext; rec_plen = plaintext_len; rec_t2 = tag2; rec_size = size;
    for (size_t i = 0; i < 8; ++i) rec_t1[i] = tag1[i];
    if (plaintext_len == MLEN)
        for (size_t i = 0; i < MLEN; ++i) rec_plain[i] = plaintext[i];
    return stub_ret;
}

VERIF_MAIN_BEGIN
    unsigned char *key, *npub, *ad, *pkt, *m;
    unsigned char mexp[MLEN + 1], texp[8];
    size_t mlen = 0;
    int r;
    IN_BYTES(key, key, KEYLEN); IN_BYTES(npub, npub, 12); IN_BYTES(ad, ad, ADLEN);
    pkt = verif_alloc(MLEN + 8);
    IN_FILL(pkt, body, MLEN); IN_FILL(pkt + MLEN, tin, 8);
#if INPLACE
    m = pkt;
#else
    IN_BYTES(m, mprior, MLEN);
#endif
    stub_ret = (IN_U32(verdict) & 1) ? 0 : -1;
#ifdef MODE_SIV
    spec_siv_crypt(KS, mexp, IN_body, MLEN, IN_npub, IN_tin, IN_key);
    spec_siv_mac(KS, texp, mexp, MLEN, IN_ad, ADLEN, IN_npub, IN_key);
#else
    spec_aead_decrypt(KS, mexp, texp, IN_body, MLEN, IN_ad, ADLEN, IN_npub, IN_key);
#endif
    r = DEC(m, &mlen, pkt, MLEN + 8, ad, ADLEN, npub, key);
    CHECK(ncalls == 1, "check_tag called exactly once");
    CHECK(r == stub_ret, "decrypt returns check_tag's verdict");
    CHECK(mlen == MLEN, "*mlen == clen - 8");
    CHECK(rec_p == m && rec_plen == MLEN, "check_tag is given the whole plaintext region (start of m, clen - 8 bytes)");
    CHECK(rec_t2 == pkt + MLEN && rec_size == 8, "check_tag compares against the 8 trailing packet bytes");
    for (size_t i = 0; i < 8; ++i) CHECK(rec_t1[i] == texp[i], "computed tag equals the specification tag");
    for (size_t i = 0; i < MLEN; ++i) CHECK(rec_plain[i] == mexp[i], "candidate plaintext equals the specification's");
    for (size_t i = 0; i < 8; ++i) CHECK(pkt[MLEN + i] == IN_tin[i], "tag bytes unmodified");
VERIF_MAIN_END
