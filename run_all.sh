#!/bin/sh
# runs every check of a tier in sequence; prints one summary line per property.  usage: run_all.sh [tier] [first-property]
tier=${1:-quick}
first=${2:-C01}
cd "$(dirname "$0")"
go=0
for p in C01 C02 C03 C04 C05 C06 C07 C08 C09 C10 C11 C12 C13 C14 C15 C16 C17 C18 C19 C20; do
  [ "$p" = "$first" ] && go=1
  [ $go = 1 ] || continue
  start=$(date +%s)
  ./check $p --tier $tier > /tmp/verif-$tier-$p.log 2>&1; rc=$?
  echo "$p rc=$rc $(( $(date +%s) - start ))s $(tail -1 /tmp/verif-$tier-$p.log)"
done
